//! E2: Kani/CBMC proof harnesses for the loop-free integer kernels of adf_bdd (full 64-bit width, no unwinding involved).
//! Each harness has a `kani::cover!` reachability witness. The same kernels are also executed by mirse (E1); disagreement = inconclusive.
#![allow(unused)]
#[cfg(kani)]
mod proofs {
    use adf_bdd::datatypes::*;

    fn class(t: usize) -> u8 {
        if t == 0 { 0 } else if t == 1 { 1 } else { 2 }
    }

    #[kani::proof]
    fn more_models_iff_models_ge_cmodels() {
        let c: usize = kani::any();
        let m: usize = kani::any();
        let mc: ModelCounts = (c, m).into();
        kani::cover!(m < c, "fewer models than counter-models is reachable");
        assert_eq!(mc.more_models(), m >= c);
    }

    #[kani::proof]
    fn minimum_is_min() {
        let c: usize = kani::any();
        let m: usize = kani::any();
        let mc: ModelCounts = (c, m).into();
        kani::cover!(m != c);
        assert_eq!(mc.minimum(), if m < c { m } else { c });
        assert_eq!(mc.cmodels, c);
        assert_eq!(mc.models, m);
    }

    #[kani::proof]
    fn term_information_classes() {
        let a: usize = kani::any();
        let b: usize = kani::any();
        let (ta, tb) = (Term(a), Term(b));
        kani::cover!(a > 1 && b > 1 && a != b, "two different undecided handles");
        assert_eq!(ta.is_truth_value(), a <= 1);
        assert_eq!(ta.is_true(), a == 1);
        assert_eq!(ta.compare_inf(&tb), class(a) == class(b));
        // no_inf_inconsistency: other carries the same information, or self is undecided
        assert_eq!(ta.no_inf_inconsistency(&tb), class(a) == class(b) || class(a) == 2);
        assert_eq!(ta.value(), a);
        assert_eq!(*ta, a);
    }

    #[kani::proof]
    fn term_from_bool_and_constants() {
        let b: bool = kani::any();
        let t: Term = Term::from(b);
        kani::cover!(b);
        assert_eq!(t, if b { Term::TOP } else { Term::BOT });
        assert!(t.is_truth_value());
        assert_eq!(t.is_true(), b);
        assert!(!Term::UND.is_truth_value());
        assert_eq!(Term::BOT.value(), 0);
        assert_eq!(Term::TOP.value(), 1);
    }

    #[kani::proof]
    fn var_is_constant() {
        let v: usize = kani::any();
        kani::cover!(v == usize::MAX - 1);
        assert_eq!(Var(v).is_constant(), v >= usize::MAX - 1);
        assert_eq!(Var(v).value(), v);
        assert!(Var::TOP.is_constant() && Var::BOT.is_constant());
        assert!(Var::BOT < Var::TOP);
    }

    #[kani::proof]
    fn bddnode_accessors_and_order() {
        let (v, lo, hi): (usize, usize, usize) = (kani::any(), kani::any(), kani::any());
        let n = BddNode::new(Var(v), Term(lo), Term(hi));
        kani::cover!(lo != hi);
        assert_eq!(n.var().value(), v);
        assert_eq!(n.lo().value(), lo);
        assert_eq!(n.hi().value(), hi);
        let (v2, lo2, hi2): (usize, usize, usize) = (kani::any(), kani::any(), kani::any());
        let n2 = BddNode::new(Var(v2), Term(lo2), Term(hi2));
        assert_eq!(n == n2, v == v2 && lo == lo2 && hi == hi2);
        assert!(BddNode::bot_node().var().is_constant() && BddNode::top_node().var().is_constant());
        assert_eq!(BddNode::bot_node().lo(), Term::BOT);
        assert_eq!(BddNode::top_node().hi(), Term::TOP);
    }

    #[kani::proof]
    fn model_counts_constants() {
        assert_eq!(ModelCounts::top().models, 1);
        assert_eq!(ModelCounts::top().cmodels, 0);
        assert_eq!(ModelCounts::bot().models, 0);
        assert_eq!(ModelCounts::bot().cmodels, 1);
        kani::cover!(true);
    }
}
