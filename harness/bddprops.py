"""C06 / C07 shared: job lists, engine validation (native vs mirse on concrete scripts), native replay."""
import random, json
from mirse.engine import *
from mirse.hlib import *
from mirse.runner import Job
from . import bddjobs
from .bddscript import Store

PYBIN = {'and': lambda a, b: a & b, 'or': lambda a, b: a | b, 'xor': lambda a, b: a ^ b, 'imp': lambda a, b: (1 - a) | b,
         'iff': lambda a, b: 1 - (a ^ b)}


def reference_tables(script, n):
    """textbook semantics of a concrete script on truth tables (python, independent of the code under test)"""
    tabs = []
    for st in script:
        op = st['op']
        if op == 'shannon': t = list(st['bits'])
        elif op == 'variable': t = [(a >> st['var']) & 1 for a in range(1 << n)]
        elif op == 'constant': t = [1 if st['val'] else 0] * (1 << n)
        elif op == 'not': t = [1 - x for x in tabs[st['a']]]
        elif op in PYBIN: t = [PYBIN[op](x, y) for x, y in zip(tabs[st['a']], tabs[st['b']])]
        elif op == 'restrict':
            v = st['var']; src = tabs[st['a']]
            t = [src[(a | (1 << v)) if st['val'] else (a & ~(1 << v))] for a in range(1 << n)] if v < n else list(src)
        elif op in ('reimport', 'serde_reimport'): t = [0] * (1 << n)      # the step's own result is the bottom handle
        else: raise ValueError(op)
        tabs.append(t)
    return tabs


def native_problems(out, script, n):
    """C06/C07 judged on a native run of a concrete script"""
    probs = []
    if 'panic' in out or 'steps' not in out: return ['native run failed: %s' % json.dumps(out)[:200]]
    ref = reference_tables(script, n)
    hs = [s['h'] for s in out['steps']]
    for k, (st, r) in enumerate(zip(out['steps'], ref)):
        if r is None: continue
        if st['table'] != r: probs.append('step %d (%s): native table %s, specified %s' % (k, script[k]['op'], st['table'], r))
        if out['final_tables'][k] != r: probs.append('step %d: function of an issued handle changed later' % k)
        if (hs[k] == 1) != all(r) or (hs[k] == 0) != (not any(r)): probs.append('step %d: constant collapse wrong (handle %d)' % (k, hs[k]))
    for i in range(len(hs)):
        for j in range(i):
            if ref[i] is None or ref[j] is None: continue
            if (hs[i] == hs[j]) != (ref[i] == ref[j]): probs.append('handles of steps %d,%d: equality of handles != equality of functions' % (j, i))
    if out.get('renode_problem'): probs.append(out['renode_problem'])
    nodes = [(int(v), lo, hi) for v, lo, hi in out['nodes']]
    seen = {}
    for i, (v, lo, hi) in enumerate(nodes):
        if i < 2: continue
        if lo == hi: probs.append('node %d has equal branches' % i)
        if (v, lo, hi) in seen: probs.append('nodes %d and %d are duplicates' % (seen[(v, lo, hi)], i))
        seen[(v, lo, hi)] = i
        for ch in (lo, hi):
            if ch >= i: probs.append('node %d: child %d not earlier' % (i, ch))
            elif ch > 1 and nodes[ch][0] <= v: probs.append('node %d: child %d does not test a later variable' % (i, ch))
    return probs


def run_concrete(eng, script, n):
    """the same script through mirse without symbolic inputs"""
    eng.reset_path([]); eng.path_violations = []
    st = Store(eng, n, check=False)
    hs = []
    for s in script:
        k = st.step(dict(s))
        hs.append(tv(st.handles[k]))
    nodes = [[str(nd.f[0].f[0]), nd.f[1].f[0], nd.f[2].f[0]] for nd in st.nodes()]
    return hs, nodes


def random_script(rng, n, nops):
    script = []
    for _ in range(rng.randint(2, 3)):
        script.append({'op': 'shannon', 'bits': [rng.randint(0, 1) for _ in range(1 << n)]})
    for _ in range(nops):
        op = rng.choice(['not', 'and', 'or', 'imp', 'iff', 'xor', 'restrict', 'restrict', 'variable', 'constant', 'reimport', 'serde_reimport'])
        st = {'op': op}
        if op in ('not', 'restrict') or op in PYBIN: st['a'] = rng.randrange(len(script))
        if op in PYBIN: st['b'] = rng.randrange(len(script))
        if op == 'restrict': st['var'] = rng.randrange(n + 1); st['val'] = bool(rng.randint(0, 1))
        if op == 'variable': st['var'] = rng.randrange(n)
        if op == 'constant': st['val'] = bool(rng.randint(0, 1))
        script.append(st)
    return script


def validate(ctx, tier, seed):
    rng = random.Random(seed * 7919 + 11)
    key = ctx.engine()
    eng = ctx.engines[key]
    nat = ctx.native()
    mism = []; cnt = 0
    for i in range(25 if tier == 'quick' else 120):
        n = rng.choice([2, 3, 3, 4])
        script = random_script(rng, n, rng.randint(3, 9))
        out = nat.call({'cmd': 'bdd_script', 'n': n, 'steps': script})
        try:
            hs, nodes = run_concrete(eng, script, n)
        except Exception as ex:
            mism.append('mirse failed on %s: %r' % (json.dumps(script), ex)); continue
        if 'steps' not in out:
            mism.append('native failed on %s: %s' % (json.dumps(script), out)); continue
        if hs != [s['h'] for s in out['steps']] or nodes != out['nodes']:
            mism.append('script %s: native handles %s nodes %s / mirse handles %s nodes %s' % (json.dumps(script), [s['h'] for s in out['steps']], out['nodes'], hs, nodes))
        probs = native_problems(out, script, n)
        if probs: ctx.notes.append('validation script violates property natively: %s %s' % (json.dumps(script), probs[:2]))
        cnt += 1
    return cnt, mism


def replay(ctx, v):
    if str(v.get('kind', '')).startswith('bridge-') or (v.get('kind') == 'panic' and 'pregrounded' in v.get('case', {})):
        from . import c06bridge
        return c06bridge.replay(ctx, v)
    if v.get('canon'):
        out = ctx.native().call({'cmd': 'compile', 'text': v['text'], 'mode': v['mode'], 'sort': 'none'}, timeout=120)
        return 'reproduced', out
    script = v['replay']
    nat = ctx.native(tuple(f for f in script['features'] if f != 'HashSet')) if script.get('features') else ctx.native()
    out = nat.call(script)
    probs = native_problems(out, script['steps'], script['n'])
    if probs: return 'reproduced', {'native_output': out, 'problems': probs[:5]}
    return 'not-reproduced', {'native_output': out}


def key(v):
    if str(v.get('kind', '')).startswith('bridge-') or (v.get('kind') == 'panic' and 'pregrounded' in v.get('case', {})):
        from . import c06bridge
        return c06bridge.key(v)
    if v.get('canon'):
        import hashlib
        return 'canon:%s:%s' % (v['mode'], hashlib.sha1(v['text'].encode()).hexdigest()[:12])
    return v['kind'] + ':' + json.dumps(v['replay']['steps'], sort_keys=True) + (':' + '+'.join(v['replay']['features']) if v['replay'].get('features') else '')


ASSUMPTIONS = [
    'std HashMap/HashSet/Vec/RefCell/Option and iterator adaptors are replaced by models implementing their documented contracts (list in coverage.library_models_invoked)',
    'hash-map key equality = structural equality of the derived PartialEq on Term/Var/BddNode/tuples',
    'log level is Off (static default), log macros are dead branches',
    'usize is a 64-bit bit-vector; overflow checks as in the dev profile',
]


def bridge_jobs(tier, seed):
    from . import c06bridge
    return c06bridge.jobs(tier, random.Random(seed * 977 + 5))


def spec(ctx, tier, seed, prop):
    ctx.engine()
    def extra(ctx_):
        from . import c09
        return c09.canonicity_run(ctx_, tier, seed)
    return {
        'extra': extra if prop == 'C06' else None,
        'jobs': bddjobs.make_jobs(Job, tier, seed, prop) + (bridge_jobs(tier, seed) if prop == 'C06' else []),
        'level': 'model_checking',
        'assumptions': ASSUMPTIONS,
        'bounds': 'operands = all functions of n=2 variables (complete, all operations, all pairs); n=3 with one operand symbolic and the other drawn from VERIF_SEED; '
                  'operation histories of length 2 (quick) / 3 (thorough) on one store with operands chosen among all issued handles, incl. re-import of the node list; '
                  'thorough adds all pairs at n=3 for and/xor and an n=4 family; restriction variable in 0..n, both values',
        'outside': 'n>=4 beyond the seeded family; histories longer than 3; bridge conversions: symbolically for all two-statement ADFs and seeded three-statement families on the biodivine '
                   'contract model (C06), and per compiled instance with the real biodivine library (coverage.bridge_*)',
    }
