"""C06 on bridged stores: the naive store that the real `hybrid_step_opt(false)` / `hybrid_step()` builds from biodivine diagrams
(`Adf::from_biodivine_vector`: every diagram's node list replayed through Bdd::node) - for *all* ADFs of the bounded families, the
diagrams being symbolic functions of the biodivine contract model (mirse/models_bio.py).  Decided per path: the structural invariants,
same root handle <=> same function, and (without pre-grounding) every root denotes the submitted acceptance condition."""
import json
import z3
from mirse.engine import *
from mirse.hlib import *
from mirse.runner import Job
from . import adflib as A, semjobs
from .bddscript import Store


def bridge_job(e, p):
    n = p['n']; pre = bool(p.get('pregrounded')); canary = p.get('canary')
    tabs = A.family_tabs(n, p['fam'])
    hist = p.get('history', [])
    def case(m): return {'n': n, 'tabs': tables_from_model(m, [[zb(b) for b in t] for t in tabs]), 'pregrounded': pre, 'history': hist}
    def on_panic(e_, msg):
        m = sat_model(e_, True)
        if m is not None: report(e_, 'panic', what='bridge conversion panics: %s' % msg[:200], case=case(m))
    e.hooks['on_panic'] = on_panic
    bio, rb = semjobs.make_bio_adf(e, tabs, n)
    for h in hist:          # semantics computed on the biodivine-based object before the bridge is taken (the bridge must not depend on them)
        if h == 'grounded': e.call('adfbiodivine::Adf::grounded', [rb])
        elif h in ('complete', 'stable'): A.drain(e, e.call('adfbiodivine::Adf::%s' % h, [rb]))
        elif h == 'stable_rew': e.call('adfbiodivine::Adf::stable_bdd_representation', [rb])
        else: raise Unsupported('history step ' + h)
    adf = e.call('adfbiodivine::Adf::hybrid_step', [rb]) if pre else e.call('adfbiodivine::Adf::hybrid_step_opt', [rb, False])
    bdd = adf.f[e.field('Adf', 'bdd')]
    roots = []
    for t in adf.f[e.field('Adf', 'ac')].items:
        h = tv(t); roots.append(e.concretize(h) if is_sym(h) else h)
    st = Store(e, n, check=False); st.bdd = bdd; st.r = Ref([bdd], 0); st.script = []
    st.violation = lambda kind, what, model, **kw: report(e, 'bridge-invariant', what=what, case=case(sat_model(e, True)))
    st.check_invariants()
    nodes = bdd_nodes(e, bdd)
    fn = [[zb(b) for b in table(e, nodes, h, n)] for h in roots]
    if canary: fn[0] = [z3.Not(b) for b in fn[0]]
    if not pre:
        for s in range(n):
            m = sat_model(e, z3.Or(*[fn[s][a] != zb(tabs[s][a]) for a in range(1 << n)]))
            if m is not None: report(e, 'bridge-function', what='after the bridge, statement %d has a condition that differs from the submitted one' % s, case=case(m))
    else:
        # pre-grounded import: the submitted condition with the grounded truth values substituted - equal to the submitted condition on every assignment
        # that agrees with the grounded interpretation (least fixpoint written as formulas), and independent of the decided statements
        spec = A.oracle_lfp(p['fam'], tabs, n)
        agree = [z3.And(*[z3.And(z3.Implies(spec[v][0], z3.BoolVal(bool((a >> v) & 1))), z3.Implies(spec[v][1], z3.BoolVal(not ((a >> v) & 1)))) for v in range(n)]) for a in range(1 << n)]
        for s in range(n):
            conds = [z3.And(agree[a], fn[s][a] != zb(tabs[s][a])) for a in range(1 << n)]
            conds += [z3.And(z3.Or(spec[v][0], spec[v][1]), fn[s][a] != fn[s][a ^ (1 << v)]) for v in range(n) for a in range(1 << n) if not (a >> v) & 1]
            m = sat_model(e, z3.Or(*conds))
            if m is not None: report(e, 'bridge-function', what='after the pre-grounded bridge, statement %d does not denote its condition with the grounded values substituted' % s, case=case(m))
    for s in range(n):
        for t in range(s + 1, n):
            differ = z3.Or(*[fn[s][a] != fn[t][a] for a in range(1 << n)])
            m = sat_model(e, z3.Not(differ)) if roots[s] != roots[t] else sat_model(e, differ)
            if m is not None:
                report(e, 'bridge-canonicity', what='statements %d and %d: %s' % (s, t, 'equal functions, different handles' if roots[s] != roots[t] else 'one handle for different functions'), case=case(m))
    return {'nodes': len(nodes), 'roots': roots}


def judge(out, case):
    if 'nodes' not in out: return ['native run failed: %s' % str(out)[:200]]
    n = case['n']; probs = []
    nodes = [(int(v), lo, hi) for v, lo, hi in out['nodes']]
    seen = set()
    for i, (v, lo, hi) in enumerate(nodes):
        if i < 2: continue
        if lo == hi: probs.append('node %d has equal branches' % i)
        if (v, lo, hi) in seen: probs.append('node %d is a duplicate' % i)
        seen.add((v, lo, hi))
        for ch in (lo, hi):
            if ch >= i: probs.append('node %d: child not earlier' % i)
            elif ch > 1 and nodes[ch][0] <= v: probs.append('node %d: child does not test a later variable' % i)
    if not case.get('pregrounded'):
        for s in range(n):
            if out['tables'][s] != [int(b) for b in case['tabs'][s]]: probs.append('statement %d: bridged condition differs from the submitted one' % s)
    else:
        g = A.py_grounded(case['tabs'], n)
        for s in range(n):
            for a in range(1 << n):
                if all(g[v] == 'u' or (g[v] == 'T') == bool((a >> v) & 1) for v in range(n)) and out['tables'][s][a] != int(case['tabs'][s][a]):
                    probs.append('statement %d: pre-grounded condition differs from the submitted one under an assignment that agrees with the grounded interpretation %s' % (s, g)); break
            for v in range(n):
                if g[v] != 'u' and any(out['tables'][s][a] != out['tables'][s][a ^ (1 << v)] for a in range(1 << n)): probs.append('statement %d still depends on the decided statement %d' % (s, v)); break
    for s in range(n):
        for t in range(s + 1, n):
            if (out['roots'][s] == out['roots'][t]) != (out['tables'][s] == out['tables'][t]): probs.append('statements %d and %d: handle equality and function equality disagree' % (s, t))
    return probs


def replay(ctx, v):
    c = v['case']
    out = ctx.native().call({'cmd': 'bridge_store', 'n': c['n'], 'tabs': c['tabs'], 'pregrounded': c.get('pregrounded', False), 'history': c.get('history', [])}, timeout=30)
    probs = judge(out, c)
    return ('reproduced', {'native_output': out, 'problems': probs[:5]}) if probs else ('not-reproduced', {'native_output': out})


def key(v):
    c = v['case']; return '%s:%s' % (v['kind'], json.dumps([c['n'], c['tabs'], c.get('pregrounded', False)] + ([c['history']] if c.get('history') else [])))


def jobs(tier, rng):
    out = []; mod = 'harness.c06bridge'
    for pre in (False, True):
        out.append(Job('bridge-n2-all%s' % ('-pregrounded' if pre else ''), mod, 'bridge_job', {'n': 2, 'fam': ['sym', 'sym'], 'pregrounded': pre}, stop_after_violations=40))
    # the same after semantics were computed on the biodivine-based object (its answers may be memoised inside the object; the bridge must not change)
    for hist in (['stable_rew'], ['grounded', 'stable'], ['complete', 'stable_rew']):
        out.append(Job('bridge-n2-all-pregrounded-after-%s' % '+'.join(hist), mod, 'bridge_job', {'n': 2, 'fam': ['sym', 'sym'], 'pregrounded': True, 'history': hist}, stop_after_violations=40))
    for i, fam in enumerate(semjobs.families(3, 1, rng, 3 if tier == 'quick' else 10)):
        out.append(Job('bridge-n3-%d' % i, mod, 'bridge_job', {'n': 3, 'fam': fam, 'pregrounded': i % 3 == 2}, stop_after_violations=40))
    if tier == 'thorough':
        for i, fam in enumerate(semjobs.families(4, 1, rng, 1)):
            out.append(Job('bridge-n4-%d' % i, mod, 'bridge_job', {'n': 4, 'fam': fam}, stop_after_violations=40))
    return out
