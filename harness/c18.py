"""C18 - nogood store: sound deductions, no spurious conflicts, nothing forgotten (DESIGN.md section 5/C18)"""
import json, random, itertools
import z3
from mirse.engine import *
from mirse.hlib import *
from mirse.runner import Job
from .bddprops import ASSUMPTIONS

MODES = ['None', 'Equiv', 'Subsume']
W = 32


def symng(e, name, V, nonempty=True):
    a = z3.BitVec(name + '_a', W); v = z3.BitVec(name + '_v', W)
    mask = (1 << V) - 1
    e.assume(z3.ULE(a, mask)); e.assume((v & ~a) == 0)
    if nonempty: e.assume(a != 0)
    return a, v


def matches_total(a, v, t):
    """the total assignment t (bitmask) matches the nogood (a, v)"""
    return (z3.BitVecVal(t, W) & a) == v


def contains(ia, iv, a, v):
    """partial interpretation (ia, iv) contains every literal of the nogood (a, v)"""
    return z3.And((ia & a) == a, (iv & a) == v)


def mk_ng(a, v): return Struct([a, v])


def terms_of(e, ia, iv, V):
    """Vec<Term> for a partial interpretation: decided positions 1/0, undecided positions distinct handles >= 2"""
    out = []
    for i in range(V):
        act = z3.Extract(i, i, ia) == 1; val = z3.Extract(i, i, iv) == 1
        out.append(T(z3.If(act, z3.If(val, BV64(1), BV64(0)), BV64(10 + i))))
    return out


def bvv(x): return x if is_sym(x) else z3.BitVecVal(x, W)


def ng_job(e, p):
    V = p['V']; K = p['K']; canary = p.get('canary')
    e.ng_nv = V
    modes = p['modes']          # list of K mode names, or 'choose'
    size = p.get('size', V)     # constructor argument = number of arity buckets; the search passes the number of statements
    st = e.call('nogoods::NoGoodStore::new', [size]); rs = Ref([st], 0)
    added = []
    seq = []
    for k in range(K):
        mode = modes[k]
        if mode == 'choose': mode = MODES[e.choose(3, 'mode')]
        seq.append(mode)
        if k == 0 or seq[k - 1] != mode:
            e.call('nogoods::NoGoodStore::set_dup_elem', [rs, Enum(mode, [], 'DuplicateElemination')])
        a, v = symng(e, 'ng%d' % k, V, nonempty=not p.get('allow_empty'))
        if k == 0 and p.get('first') is not None:
            # symmetry reduction for the longest histories: the first nogood is fixed up to renaming of variables and polarity
            e.assume(a == p['first'][0]); e.assume(v == p['first'][1])
        if size < V: e.assume(z3.Or(*[a == c for c in range(1 << V) if bin(c).count('1') <= size]))   # documented limit: arity <= size
        added.append((a, v))
        e.call('nogoods::NoGoodStore::add_ng', [rs, mk_ng(a, v)])
    ia, iv = symng(e, 'int', V, nonempty=False)
    def conc(m):
        c = {'V': V, 'modes': seq, 'nogoods': [[mint(m, a), mint(m, v)] for a, v in added], 'interp': [mint(m, ia), mint(m, iv)]}
        if size != V: c['size'] = size
        return c
    def on_panic(e_, msg):
        m = sat_model(e_, True)
        if m is not None: report(e_, 'panic', what='nogood store panics: %s' % msg[:200], case=conc(m))
    e.hooks['on_panic'] = on_panic
    total = range(1 << V)
    excl_added = [z3.Or(*[matches_total(a, v, t) for a, v in added]) for t in total]
    # (1) nothing forgotten, nothing invented: the store's contents exclude exactly what the added nogoods exclude
    stored = []
    for bucket in st.f[e.field('NoGoodStore', 'store')].items:
        for ng in bucket.items: stored.append((bvv(ng.f[0]), bvv(ng.f[1])))
    excl_store = [z3.Or(*[matches_total(a, v, t) for a, v in stored]) if stored else z3.BoolVal(False) for t in total]
    if 'unsatisfiable' in e.structs['NoGoodStore']:
        # the store records the empty nogood (which excludes everything) in a flag of its own
        flag = st.f[e.field('NoGoodStore', 'unsatisfiable')]
        if e.branch(flag) if not isinstance(flag, bool) else flag: excl_store = [z3.BoolVal(True) for t in total]
    if canary == 'forget': excl_store = [z3.Not(x) for x in excl_store]
    diff = z3.Or(*[x != y for x, y in zip(excl_store, excl_added)])
    m = sat_model(e, diff)
    if m is not None:
        t = next(t for t in total if mbool(m, excl_store[t]) != mbool(m, excl_added[t]))
        c = conc(m); c['interp'] = [(1 << V) - 1, t]       # observable through conclusions() on the total assignment t
        report(e, 'store-forgets' if mbool(m, excl_added[t]) else 'store-invents',
               what='after the adds the store %s the total assignment %s' % ('no longer excludes' if mbool(m, excl_added[t]) else 'excludes', bin(t)), case=c)
    # (2)-(3) conclusions on a symbolic partial interpretation
    ext_ok = [z3.And(matches_total(ia, iv, t), z3.Not(excl_added[t])) for t in total]
    res = e.call('nogoods::NoGoodStore::conclusions', [rs, Ref([mk_ng(ia, iv)], 0)])
    judge(e, 'conclusions', res.v == 'None', (bvv(res.f[0].f[0]), bvv(res.f[0].f[1])) if res.v == 'Some' else None, ia, iv, added, ext_ok, total, conc, canary)
    # (4) conclusion_closure (crate-private) on the same interpretation as a term vector
    tvec = terms_of(e, ia, iv, V)
    cr = e.call('nogoods::NoGoodStore::conclusion_closure', [rs, SliceRef(tvec, 0, V)])
    if cr.v == 'Inconsistent': judge(e, 'conclusion_closure', True, None, ia, iv, added, ext_ok, total, conc, None)
    else:
        if cr.v == 'NoUpdate': ra, rv = ia, iv
        else:
            ra = 0; rv = 0
            for i, t in enumerate(cr.f[0].items):
                h = tv(t); h = e.concretize(h) if is_sym(h) else h
                if h <= 1: ra |= 1 << i; rv |= (h << i)
            ra, rv = bvv(ra), bvv(rv)
        judge(e, 'conclusion_closure', False, (ra, rv), ia, iv, added, ext_ok, total, conc, None)
    return {'V': V, 'modes': seq, 'stored': len(stored), 'conclusions': res.v, 'closure': cr.v}


def judge(e, name, is_none, r, ia, iv, added, ext_ok, total, conc, canary):
    if is_none:
        cond = z3.Or(*ext_ok)        # spurious conflict: some total extension avoids every added nogood
        if canary == 'conflict': cond = z3.BoolVal(True)
        m = sat_model(e, cond)
        if m is not None:
            report(e, 'spurious-conflict', what='%s reports a conflict although a total extension avoids all added nogoods' % name, case=conc(m), api=name)
        return
    ra, rv = r
    # every literal of the answer is forced: it holds in every total extension of the interpretation that avoids all added nogoods
    # (the interpretation's own literals hold there trivially; whether the answer repeats them is not prescribed by the property)
    conds = [z3.And(ext_ok[t], z3.Not(matches_total(ra, rv, t))) for t in total]
    m = sat_model(e, z3.Or(*conds))
    if m is not None:
        report(e, 'unsound-conclusion', what='%s concludes (active=%s,value=%s), which is not forced by the added nogoods' % (name, bin(mint(m, ra)), bin(mint(m, rv))), case=conc(m), api=name)
    m = sat_model(e, z3.Or(*[contains(ia, iv, a, v) for a, v in added]))
    if m is not None:
        report(e, 'missed-conflict', what='%s reports no conflict although the interpretation matches an added nogood' % name, case=conc(m), api=name)

# ------------------------------------------------------------------ native side

def py_judge(case, out):
    V = case['V']; ngs = case['nogoods']; ia, iv = case['interp']
    if 'conclusions' not in out: return ['native run failed: %s' % str(out)[:200]]
    probs = []
    good = [t for t in range(1 << V) if (t & ia) == iv and not any((t & a) == v for a, v in ngs)]
    for name in ('conclusions', 'closure'):
        r = out[name]
        if r is None:
            if good: probs.append('%s: conflict although assignment %s avoids all added nogoods' % (name, bin(good[0])))
        else:
            ra, rv = r
            if any((t & ra) != rv for t in good): probs.append('%s: concluded literal not forced' % name)
            if any((ia & a) == a and (iv & a) == v for a, v in ngs): probs.append('%s: no conflict although the interpretation matches an added nogood' % name)
    return probs


def native_cmd(case): return dict(case, cmd='ng')

def replay(ctx, v):
    out = ctx.native().call(native_cmd(v['case']))
    probs = py_judge(v['case'], out)
    return ('reproduced', {'native_output': out, 'problems': probs}) if probs else ('not-reproduced', {'native_output': out})

def key(v):
    c = v['case']
    return '%s:%s' % (v['kind'], json.dumps([c['V'], c['modes'], c['nogoods'], c['interp']] + ([c['size']] if 'size' in c else [])))


def run_concrete(eng, case):
    V = case['V']; eng.ng_nv = V
    eng.reset_path([]); eng.path_violations = []
    st = eng.call('nogoods::NoGoodStore::new', [case.get('size', V)]); rs = Ref([st], 0)
    for k, ((a, v), mode) in enumerate(zip(case['nogoods'], case['modes'])):
        if k == 0 or case['modes'][k - 1] != mode: eng.call('nogoods::NoGoodStore::set_dup_elem', [rs, Enum(mode, [], 'DuplicateElemination')])
        eng.call('nogoods::NoGoodStore::add_ng', [rs, mk_ng(a, v)])
    ia, iv = case['interp']
    res = eng.call('nogoods::NoGoodStore::conclusions', [rs, Ref([mk_ng(ia, iv)], 0)])
    tvec = [T((1 if (iv >> i) & 1 else 0) if (ia >> i) & 1 else 10 + i) for i in range(V)]
    cr = eng.call('nogoods::NoGoodStore::conclusion_closure', [rs, SliceRef(tvec, 0, V)])
    out = {'conclusions': None if res.v == 'None' else [res.f[0].f[0], res.f[0].f[1]]}
    if cr.v == 'Inconsistent': out['closure'] = None
    elif cr.v == 'NoUpdate': out['closure'] = [ia, iv]
    else:
        ra = rv = 0
        for i, t in enumerate(cr.f[0].items):
            if tv(t) <= 1: ra |= 1 << i; rv |= tv(t) << i
        out['closure'] = [ra, rv]
    return out


def validate(ctx, tier, seed):
    rng = random.Random(seed * 17 + 1)
    eng = ctx.engines[ctx.engine()]; nat = ctx.native()
    mism = []; cnt = 0
    for i in range(60 if tier == 'quick' else 300):
        V = rng.randint(1, 5); K = rng.randint(0, 5)
        ngs = []
        for _ in range(K):
            a = rng.randrange(1, 1 << V); ngs.append([a, rng.randrange(1 << V) & a])
        ia = rng.randrange(1 << V)
        case = {'V': V, 'modes': [rng.choice(MODES) for _ in range(K)] if rng.random() < 0.5 else [rng.choice(MODES)] * K, 'nogoods': ngs, 'interp': [ia, rng.randrange(1 << V) & ia]}
        out = nat.call(native_cmd(case))
        try:
            mine = run_concrete(eng, case)
        except Exception as ex:
            mism.append('mirse failed on %s: %r' % (json.dumps(case), ex)); continue
        if mine['conclusions'] != out.get('conclusions') or mine['closure'] != out.get('closure'):
            mism.append('%s: native %s / mirse %s' % (json.dumps(case), out, mine))
        cnt += 1
    return cnt, mism


def spec(ctx, tier, seed):
    ctx.engine()
    jobs = []; mod = 'harness.c18'
    if tier == 'quick':
        plans = [(3, 2, [m, m]) for m in MODES] + [(2, 2, ['choose', 'choose']), (2, 3, ['Subsume'] * 3), (2, 3, ['Equiv', 'Subsume', 'Equiv'])]
    else:
        plans = [(3, 2, [m, m]) for m in MODES] + [(4, 2, [m, m]) for m in MODES] + [(3, 2, ['choose'] * 2), (2, 3, ['choose'] * 3), (3, 3, ['Equiv'] * 3), (3, 3, ['Subsume'] * 3)]
    for V, K, modes in plans:
        jobs.append(Job('V%d-K%d-%s' % (V, K, '-'.join(modes)), mod, 'ng_job', {'V': V, 'K': K, 'modes': modes}, stop_after_violations=60))
    if tier == 'thorough':
        # four adds at V=3 under Subsume: the first nogood ranges over one representative per size (variables renamed, polarities flipped:
        # the store treats variables and polarities alike - an assumption of this job only, stated in the evidence)
        for first in ((0b001, 0b001), (0b011, 0b011), (0b111, 0b111)):
            jobs.append(Job('V3-K4-Subsume-first%s' % bin(first[0])[2:], mod, 'ng_job', {'V': 3, 'K': 4, 'modes': ['Subsume'] * 4, 'first': list(first)}, stop_after_violations=60))
    # the empty nogood (no literal: it matches, hence excludes, every interpretation) is a legal argument of add_ng and is what the search
    # learns on an ADF without statements
    for m in MODES:
        jobs.append(Job('V2-K2-%s-with-empty' % m, mod, 'ng_job', {'V': 2, 'K': 2, 'modes': [m, m], 'allow_empty': True}, stop_after_violations=60))
    # a store with fewer arity buckets than variables (legal while every nogood has at most `size` literals)
    for m in (MODES if tier == 'thorough' else ['Subsume']):
        jobs.append(Job('V3-size2-K2-%s' % m, mod, 'ng_job', {'V': 3, 'K': 2, 'modes': [m, m], 'size': 2}, stop_after_violations=60))
    jobs.append(Job('V0-K1-empty', mod, 'ng_job', {'V': 0, 'K': 1, 'modes': ['Equiv'], 'allow_empty': True}, stop_after_violations=60))
    jobs.append(Job('canary', mod, 'ng_job', {'V': 2, 'K': 1, 'modes': ['Equiv'], 'canary': 'forget'}, stop_after_violations=1, canary=True))
    return {'jobs': jobs, 'level': 'model_checking', 'allowed_status': ('ok', 'panic'),
            'assumptions': ASSUMPTIONS + ['roaring::RoaringBitmap = 32-bit bit-vector (insert/remove/contains/len/min/is_empty/and/or/xor)', 'the long sequences use non-empty nogoods; the empty nogood is covered by dedicated jobs (V=2, K=2 per mode, and V=0)'],
            'bounds': 'V <= %d statements, sequences of K <= %d nogoods, each a pair of symbolic bit-vectors (any nesting, duplication, subsumption), duplicate-elimination mode per add '
                      'None/Equiv/Subsume incl. every switch pattern at V=3, a symbolic partial interpretation; oracle over all 2^V total assignments' % (max(p[0] for p in plans), max(p[1] for p in plans)),
            'outside': 'more than %d statements / %d nogoods (thorough: four adds at V=3 under Subsume only with the first nogood fixed up to variable renaming and polarity); completeness of deduction is not claimed by the property' % (max(p[0] for p in plans), max(p[1] for p in plans))}
