"""ADF-level building blocks: symbolic ADFs built through the real code, textbook oracles (z3 and python)."""
import itertools, random, json
import z3
from mirse.engine import *
from mirse.hlib import *
from mirse.models_misc import new_rng_cell

# ------------------------------------------------------------------ building ADFs in the engine

def make_adf(e, tabs, n, create_vars=True):
    """tabs[s] = list of 2^n z3 Bools / ints.  Diagrams are built through the real Bdd::node (Shannon expansion),
    after instantiating the n variables as Adf::from_parser does.  Returns (adf struct, &mut adf, bdd struct)."""
    bdd, r = new_bdd(e)
    if create_vars:
        for v in range(n): e.call('obdd::Bdd::variable', [r, T(v)])
    acs = [build_shannon(e, r, tabs[s], n) for s in range(n)]
    # the object is created through the public constructor, exactly as the native replay binary does it
    vc = e.call('<adf::VarContainer as Default>::default', [])
    adf = e.call('<adf::Adf as From<(VarContainer, obdd::Bdd, Vec<bdd::Term>)>>::from', [Struct([vc, bdd, VecObj(acs)])])
    return adf, Ref([adf], 0), adf.f[e.field('Adf', 'bdd')]


def split_table(name, n):
    """a family over four variables whose branches depend on interleaved variable sets: if x0 then g(x2) else h(x1, x3), g and h symbolic (64 functions);
    the children of the root depend on {x2} and {x1, x3} - sets of which neither is an interval of the other"""
    assert n == 4
    g = tt_bits(name + 'g', 1); h = tt_bits(name + 'h', 2)
    return [g[(a >> 2) & 1] if a & 1 else h[((a >> 1) & 1) | (((a >> 3) & 1) << 1)] for a in range(16)]


def family_tabs(n, spec, prefix='ac'):
    """spec[s] = 'sym' or 'split' (see split_table) or a list of bits"""
    tabs = []
    for s in range(n):
        if spec[s] == 'split': tabs.append(split_table('%s%d' % (prefix, s), n)); continue
        if spec[s] == 'sym': tabs.append(tt_bits('%s%d' % (prefix, s), n))
        else: tabs.append([bool(b) for b in spec[s]])
    return tabs


def drain(e, it_val, callee='<I as Iterator>::next', limit=100000):
    """collect an iterator value returned by the real code into a python list of Vec<Term> values"""
    from mirse.models import as_it, It
    it = it_val if isinstance(it_val, It) else as_it(e, '<X as Iterator>::collect', it_val)
    out = []
    while True:
        v = it.nxt(e)
        if v is None: return out
        out.append(v)
        if len(out) > limit: raise BoundExceeded('iterator yields more than %d items' % limit)


def classes(e, vec):
    """information values of a Vec<Term>: string over T/F/u (handles concretised: forks only if symbolic)"""
    return ''.join(info_class(h) for h in ivec(e, vec))

# ------------------------------------------------------------------ z3 oracles over truth tables

def consistent(dec, asg, n):
    """assignment asg is a completion of the partial interpretation dec = [(isT,isF)]"""
    cs = []
    for v in range(n):
        if (asg >> v) & 1: cs.append(z3.Not(zb(dec[v][1])))
        else: cs.append(z3.Not(zb(dec[v][0])))
    return z3.And(*cs)

def gamma(tabs, dec, n):
    new = []
    for s in range(n):
        allt = []; allf = []
        for asg in range(1 << n):
            c = consistent(dec, asg, n)
            allt.append(z3.Implies(c, zb(tabs[s][asg])))
            allf.append(z3.Implies(c, z3.Not(zb(tabs[s][asg]))))
        new.append((z3.And(*allt), z3.And(*allf)))
    return new

def lfp(tabs, n):
    """least fixpoint of the three-valued consequence operator: per statement (isT, isF)"""
    dec = [(z3.BoolVal(False), z3.BoolVal(False))] * n
    for _ in range(n + 1):
        dec = gamma(tabs, dec, n)
    return dec

def _and(xs): return z3.And(*xs) if xs else z3.BoolVal(True)

def is_complete(tabs, v, n):
    """v: string over T/F/u.  v is a fixpoint of the consequence operator"""
    dec = [(z3.BoolVal(c == 'T'), z3.BoolVal(c == 'F')) for c in v]
    g = gamma(tabs, dec, n)
    return _and([z3.And(g[s][0] == dec[s][0], g[s][1] == dec[s][1]) for s in range(n)])

def v_to_asg(v): return sum(1 << i for i, c in enumerate(v) if c == 'T')

def is_model(tabs, v, n):
    a = v_to_asg(v)
    return _and([zb(tabs[s][a]) if v[s] == 'T' else z3.Not(zb(tabs[s][a])) for s in range(n)])

def is_stable(tabs, v, n):
    """two-valued v is a model and the grounded interpretation of the reduct re-derives every true statement"""
    keep = v_to_asg(v)
    red = [[tabs[s][asg & keep] for asg in range(1 << n)] for s in range(n)]
    g = lfp(red, n)
    return _and([is_model(tabs, v, n)] + [g[s][0] for s in range(n) if v[s] == 'T'])

# The oracle formulas depend only on the (symbolic) truth tables, which are the same z3 constants on every path of a job:
# they are built once per worker process and reused (building them dominated the run time otherwise).
_ORACLE_CACHE = {}
def famkey(fam): return json.dumps(fam)
def cached(kind, fam, n, build):
    k = (kind, n, famkey(fam))
    if k not in _ORACLE_CACHE:
        if len(_ORACLE_CACHE) > 64: _ORACLE_CACHE.clear()
        _ORACLE_CACHE[k] = build()
    return _ORACLE_CACHE[k]

def oracle_lfp(fam, tabs, n): return cached('lfp', fam, n, lambda: [(z3.simplify(a), z3.simplify(b)) for a, b in lfp(tabs, n)])
def oracle_set(kind, fam, tabs, n, cands):
    orc = {'complete': is_complete, 'stable': is_stable, 'models': is_model}[kind]
    return cached(kind, fam, n, lambda: {v: z3.simplify(orc(tabs, v, n)) for v in cands})

# ------------------------------------------------------------------ python oracles on concrete tables (replay side)

def py_gamma(tabs, v, n):
    out = []
    for s in range(n):
        vals = set()
        for asg in range(1 << n):
            if all((v[i] == 'u') or ((asg >> i) & 1) == (v[i] == 'T') for i in range(n)):
                vals.add(tabs[s][asg])
        out.append('T' if vals == {1} else 'F' if vals == {0} else 'u')
    return ''.join(out)

def py_grounded(tabs, n):
    v = 'u' * n
    while True:
        w = py_gamma(tabs, v, n)
        if w == v: return v
        v = w

def py_complete(tabs, n):
    return sorted(''.join(v) for v in itertools.product('TFu', repeat=n) if py_gamma(tabs, ''.join(v), n) == ''.join(v))

def py_models(tabs, n):
    out = []
    for v in itertools.product('TF', repeat=n):
        a = v_to_asg(v)
        if all(tabs[s][a] == (1 if v[s] == 'T' else 0) for s in range(n)): out.append(''.join(v))
    return sorted(out)

def py_stable(tabs, n):
    out = []
    for v in py_models(tabs, n):
        keep = v_to_asg(v)
        red = [[tabs[s][asg & keep] for asg in range(1 << n)] for s in range(n)]
        g = py_grounded(red, n)
        if all(g[s] == 'T' for s in range(n) if v[s] == 'T'): out.append(v)
    return sorted(out)

# ------------------------------------------------------------------ rendering for native replay

def tabs_to_text(tabs, n, names=None):
    """documented input format: one s/ac pair per statement, acceptance condition as canonical DNF"""
    names = names or [chr(ord('a') + i) for i in range(n)]
    out = []
    for s in range(n): out.append('s(%s).' % names[s])
    for s in range(n):
        terms = []
        for asg in range(1 << n):
            if tabs[s][asg]:
                lits = [names[v] if (asg >> v) & 1 else 'neg(%s)' % names[v] for v in range(n)]
                t = lits[0]
                for l in lits[1:]: t = 'and(%s,%s)' % (t, l)
                terms.append(t)
        if not terms: f = 'c(f)'
        elif len(terms) == 1 << n: f = 'c(v)'
        else:
            f = terms[0]
            for t in terms[1:]: f = 'or(%s,%s)' % (f, t)
        out.append('ac(%s,%s).' % (names[s], f))
    return ''.join(out)


def rand_tabs(rng, n, bias=None):
    tabs = []
    for s in range(n):
        kind = rng.random()
        if kind < 0.15: tabs.append([rng.randint(0, 1)] * (1 << n))                      # constant
        elif kind < 0.45:                                                                 # depends on <= 2 statements
            vs = rng.sample(range(n), min(n, rng.randint(1, 2)))
            f = {k: rng.randint(0, 1) for k in range(1 << len(vs))}
            tabs.append([f[sum(((asg >> v) & 1) << i for i, v in enumerate(vs))] for asg in range(1 << n)])
        else: tabs.append([rng.randint(0, 1) for _ in range(1 << n)])
    return tabs
