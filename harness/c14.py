"""C14 - persistence round trips preserve handles and answers (DESIGN.md section 5/C14)

(a) node-list rebuild (what the web service's database layer does): Bdd::from(nodes) + Adf::from((ordering, bdd, ac)).
(b) serde import: serde_json itself cannot be executed symbolically (visitor code of an external crate), so the imported object is
    constructed from the *derive contract read off the source at run time* (non-skipped fields copied, `with = "vectorize"` maps rebuilt
    from their pair list, skipped fields = Default or the named default function) and the real Adf::fix_import then runs on it.
    The contract model is validated against real serde_json natively on every run."""
import json, random, re, os
import z3
from mirse.engine import *
from mirse.hlib import *
from mirse.models import clone_val
from mirse.models_misc import new_rng_cell
from mirse.runner import Job
from mirse.mirparse import split_top, find_matching
from . import adflib as A, semjobs, c11
from .bddprops import ASSUMPTIONS
from .bddscript import Store

FINALS = ['grounded', 'complete', 'stable', 'heu_a', 'heu_b', 'nogood:Simple', 'nogood:MinModMinPathsMaxVarImp', 'counts', 'post_ops']
HISTORY = ['grounded', 'stable', 'heu_a', 'nogood:Simple', 'formulacounts', 'extra_ops', 'complete']


def serde_contract(e, file, struct):
    """field -> ('copy',) | ('with', module) | ('default',) | ('default_fn', path); read from the source text"""
    txt = '\n'.join(e.src(file))
    txt = re.sub(r'//[^\n]*', '', txt)
    m = re.search(r'\bstruct %s\s*\{' % struct, txt)
    j = find_matching(txt, m.end() - 1)
    out = {}
    for part in split_top(txt[m.end():j]):
        on = True
        for am in re.finditer(r'#\[cfg\((.*?)\)\]\s', part + ' ', re.S): on = on and e.cfg_on(am.group(1))
        attrs = ' '.join(x.group(1) for x in re.finditer(r'#\[serde\((.*?)\)\]', part, re.S))
        part2 = re.sub(r'#\[(?:[^\[\]]|\[[^\]]*\])*\]', '', part).strip()
        mm = re.match(r'(?:pub(?:\([a-z]+\))?\s+)?(\w+)\s*:', part2)
        if not mm or not on: continue
        name = mm.group(1)
        if re.search(r'\bskip\b|\bskip_deserializing\b', attrs):
            md = re.search(r'default\s*=\s*"([^"]+)"', attrs)
            out[name] = ('default_fn', md.group(1)) if md else ('default',)
        else:
            mw = re.search(r'with\s*=\s*"([^"]+)"', attrs)
            out[name] = ('with', mw.group(1)) if mw else ('copy',)
    return out


def container_contract(e, file, struct):
    """container-level serde attributes of the struct: -> {'from': T} / {'try_from': T} / {}.  A struct that does not derive Deserialize at all
    (hand-written impl) cannot be modelled from attributes: unsupported, never guessed."""
    txt = '\n'.join(e.src(file))
    m = re.search(r'\bstruct %s\s*\{' % struct, txt)
    head = txt[:m.start()]
    # the attribute / doc-comment block directly in front of the struct
    lines = head.split('\n'); blk = []
    for ln in reversed(lines[:-1] if lines[-1].strip() in ('', 'pub', 'pub(crate)') else lines):
        t = ln.strip()
        if t.startswith('#[') or t.startswith('///') or t.startswith('//') or t == '' and blk and False: blk.append(t)
        elif t.endswith(')]') or t.endswith('),') or t.startswith('feature') or t.startswith('derive'): blk.append(t)      # continuation lines of a multi-line attribute
        else: break
    attrs = ' '.join(reversed(blk))
    if not re.search(r'derive\([^)]*\bDeserialize\b', attrs): raise Unsupported('%s does not derive Deserialize: import cannot be modelled from the derive attributes' % struct)
    out = {}
    for key_ in ('try_from', 'from'):
        mm = re.search(r'serde\([^\]]*?\b%s\s*=\s*"([^"]+)"' % key_, attrs)
        if mm and key_ not in out and not (key_ == 'from' and 'try_from' in out): out[key_] = mm.group(1)
    return out


def default_value(e, ty_hint, name):
    if name in ('var_deps',): return VecObj()
    if name in ('ite_cache', 'restrict_cache', 'cache'): return MapObj()
    if name in ('sender', 'receiver'): return NONE()
    if name == 'count_cache': return CellObj(MapObj(), 'refcell')
    raise Unsupported('no Default known for skipped field ' + name)


def import_by_contract(e, adf):
    """what serde_json::from_str(serde_json::to_string(adf)) yields according to the derive attributes"""
    bdd = adf.f[e.field('Adf', 'bdd')]
    nb = import_bdd_by_contract(e, bdd)
    cc = container_contract(e, 'lib/src/adf.rs', 'Adf')
    if cc:
        # #[serde(from = "T")] / try_from: serde deserialises a T by T's own derive contract and then runs the crate's real conversion
        kind = 'try_from' if 'try_from' in cc else 'from'; sh = cc[kind].split('::')[-1]
        cs = serde_contract(e, 'lib/src/adf.rs', sh); sf = []
        for name in e.structs_q[('lib/src/adf.rs', sh)]:
            rule = cs[name]
            if name == 'bdd': sf.append(nb)
            elif rule[0] == 'copy' and name in e.structs['Adf']: sf.append(clone_val(e, adf.f[e.field('Adf', name)]) if adf.f[e.field('Adf', name)] is not None else None)
            elif name == 'rng': sf.append(new_rng_cell())
            elif rule[0] == 'default': sf.append(e.default_field('lib/src/adf.rs', sh, name))
            else: raise Unsupported('field rule %s for %s::%s' % (rule, sh, name))
        r = e.call('<adf::Adf as %s<adf::%s>>::%s' % ('TryFrom' if kind == 'try_from' else 'From', sh, kind), [Struct(sf)])
        if kind == 'try_from':
            if r.v != 'Ok': raise RustPanic('import rejected by TryFrom<%s>' % sh)
            r = r.f[0]
        return r, r.f[e.field('Adf', 'bdd')]
    ca = serde_contract(e, 'lib/src/adf.rs', 'Adf')
    af = []
    for name in e.structs['Adf']:
        rule = ca[name]
        if name == 'bdd': af.append(nb)
        elif rule[0] == 'copy': af.append(clone_val(e, adf.f[e.field('Adf', name)]) if adf.f[e.field('Adf', name)] is not None else None)
        elif name == 'rng': af.append(new_rng_cell())
        else: raise Unsupported('Adf field rule %s for %s' % (rule, name))
    return Struct(af), nb


def import_bdd_by_contract(e, bdd):
    if container_contract(e, 'lib/src/obdd.rs', 'Bdd'): raise Unsupported('container-level serde conversion on Bdd')
    cb = serde_contract(e, 'lib/src/obdd.rs', 'Bdd')
    fields = []
    for name in e.structs['Bdd']:
        rule = cb[name]; old = bdd.f[e.field('Bdd', name)]
        if rule[0] == 'copy': fields.append(clone_val(e, old))
        elif rule[0] == 'with':
            if rule[1] != 'vectorize': raise Unsupported('serde with = ' + rule[1])
            m = MapObj()            # vectorize: Vec<(K,V)> -> T::from_iter: later pairs win on equal keys
            for k, v in old.e:
                hit = None
                for ent in m.e:
                    if e.branch(e.eq_vals(ent[0], k)): hit = ent; break
                if hit: hit[1][0] = clone_val(e, v[0])
                else: m.e.append([clone_val(e, k), [clone_val(e, v[0])]])
            fields.append(m)
        elif rule[0] == 'default': fields.append(default_value(e, None, name))
        else: fields.append(e.call('obdd::' + rule[1], []))
    return Struct(fields)


def rebuild_nodelist(e, adf):
    bdd = adf.f[e.field('Adf', 'bdd')]
    nodes = VecObj([e.copyval(x) for x in bdd_nodes(e, bdd)])
    nb = e.call('<obdd::Bdd as From<Vec<bdd::BddNode>>>::from', [nodes])
    acs = VecObj([e.copyval(x) for x in adf.f[e.field('Adf', 'ac')].items])
    nadf = e.call('<adf::Adf as From<(VarContainer, obdd::Bdd, Vec<bdd::Term>)>>::from', [Struct([None, nb, acs])])
    return nadf, nadf.f[e.field('Adf', 'bdd')]


def final_call(e, final, adf, ra, bdd, n):
    if final == 'post_ops':
        # keep building on the imported store: the unique table must still know every node
        rb = Ref([bdd], 0); acs = adf.f[e.field('Adf', 'ac')]
        a0 = e.copyval(acs.items[0]); a1 = e.copyval(acs.items[-1])
        x = e.call('obdd::Bdd::and', [rb, a0, a1]); y = e.call('obdd::Bdd::xor', [rb, e.copyval(a0), e.copyval(a1)])
        z = e.call('obdd::Bdd::restrict', [rb, e.copyval(y), T(0), False])
        nodes = bdd_nodes(e, bdd)
        return [''.join('1' if b else '0' for b in [e.branch(v) if not isinstance(v, bool) else v for v in table(e, nodes, tv(h), n)]) for h in (x, y, z)]
    return c11.do_call(e, final, adf, ra, bdd, n)


def persist_job(e, p):
    n = p['n']; hist = p['history']; final = p['final']; mode = p['mode']; canary = p.get('canary')
    tabs = A.family_tabs(n, p['fam'])
    def case(m):
        c = {'n': n, 'tabs': tables_from_model(m, [[zb(b) for b in t] for t in tabs]), 'history': hist, 'final': final, 'mode': mode}
        if p.get('features'): c['features'] = p['features']
        if p.get('novars'): c['novars'] = True
        return c
    def on_panic(e_, msg):
        m = sat_model(e_, True)
        if m is not None: report(e_, 'panic', what='round trip panics: %s' % msg[:200], case=case(m))
    e.hooks['on_panic'] = on_panic
    # novars: the store holds only the nodes of the diagrams, no bare variable nodes created up front - the shape of a bridged ADF
    # (Adf::from_biodivine_vector replays biodivine's node lists through Bdd::node and never calls Bdd::variable)
    adf, ra, bdd = A.make_adf(e, tabs, n, create_vars=not p.get('novars'))
    for c in hist: c11.do_call(e, c, adf, ra, bdd, n)
    before = [(nd.f[0].f[0], nd.f[1].f[0], nd.f[2].f[0]) for nd in bdd_nodes(e, bdd)]
    ac_before = [tv(x) for x in adf.f[e.field('Adf', 'ac')].items]
    if mode == 'nodelist':
        nadf, nb = rebuild_nodelist(e, adf)
    else:
        nadf, nb = import_by_contract(e, adf)
        e.call('adf::Adf::fix_import', [Ref([nadf], 0)])
    after = [(nd.f[0].f[0], nd.f[1].f[0], nd.f[2].f[0]) for nd in bdd_nodes(e, nb)]
    from .c19 import same_nodes
    if canary: after = after[:-1]
    if not same_nodes(before, after):
        m = sat_model(e, True); report(e, 'renumbered', what='%s round trip does not reproduce the node list index by index (%d -> %d nodes)' % (mode, len(before), len(after)), case=case(m))
    ac_after = [tv(x) for x in nadf.f[e.field('Adf', 'ac')].items]
    if any(not (a.eq(b) if is_sym(a) and is_sym(b) else (not is_sym(a) and not is_sym(b) and a == b)) for a, b in zip(ac_before, ac_after)) or len(ac_before) != len(ac_after):
        m = sat_model(e, True); report(e, 'roots-changed', what='root handles differ after the round trip', case=case(m))
    rn = Ref([nadf], 0)
    got = final_call(e, final, nadf, rn, nb, n)
    # imported private state must be as good as the original's
    nodes = bdd_nodes(e, nb); memo = {}
    def toh(h):
        if h not in memo: memo[h] = table(e, nodes, h, n)
        return memo[h]
    for pr, probe in c11.audit_memo(e, nb, n, toh):
        m = sat_model(e, True); report(e, 'import-state', what=pr, case=case(m), probe=probe)
    st = Store(e, n, check=False); st.bdd = nb; st.r = Ref([nb], 0); st.script = []
    viol_before = len(e.path_violations)
    st.violation = lambda kind, what, model, **kw: report(e, 'import-state', what=what, case=case(sat_model(e, True)), probe={'op': 'renode'})
    st.check_invariants()
    adf2, ra2, bdd2 = A.make_adf(e, tabs, n, create_vars=not p.get('novars'))
    fresh = final_call(e, final, adf2, ra2, bdd2, n)
    if final in ('grounded', 'complete', 'stable', 'heu_a', 'heu_b') or final.startswith('nogood'):
        wrong = semjobs.answer_mismatch(e, p['fam'], tabs, n, final, got)
        if wrong is not None:
            report(e, 'answer-differs', what='%s on the %s round-tripped object = %s, the definition gives %s' % (final, mode, got, wrong[2]), case=case(wrong[0]), observed=got, expected=wrong[2], oracle=True)
    if sorted(map(str, got)) != sorted(map(str, fresh)):
        m = sat_model(e, True)
        report(e, 'answer-differs', what='%s on the %s round-tripped object = %s, original/fresh = %s' % (final, mode, got, fresh), case=case(m), observed=got, expected=fresh)
    return {'mode': mode, 'history': hist, 'final': final, 'nodes': len(after), 'answer': got}

# ------------------------------------------------------------------ native side

def native_cmd(case): return dict(case, cmd='adf_persist')

def oracle_problems(out, case):
    """the native answer of a semantics procedure judged against the definition (python oracle on the concrete tables)"""
    fin = case['final']
    if not (fin in ('grounded', 'complete', 'stable', 'stable_with_prefilter', 'heu_a', 'heu_b') or fin.startswith(('nogood', 'twoval'))): return []
    if not isinstance(out.get('after'), list): return []
    exp = semjobs.py_oracle(semjobs.oracle_kind(fin), case['tabs'], case['n'])
    got = out['after']
    if sorted(got) != sorted(exp): return ['%s answers %s, the definition gives %s' % (fin, got, exp)]
    return []


def judge(out):
    if 'after' not in out: return ['native run failed: %s' % str(out)[:300]]
    probs = []
    if out['nodes_before'] != out['nodes_after']: probs.append('node list not reproduced index by index')
    if out['ac_before'] != out['ac_after']: probs.append('root handles changed')
    if sorted(map(str, out['after'])) != sorted(map(str, out['fresh'])): probs.append('answer after round trip %s, fresh %s' % (out['after'], out['fresh']))
    return probs

def replay(ctx, v):
    if v.get('kind') == 'export-overwrites':
        from . import c15
        return c15.replay_export(ctx, v)
    feats = v['case'].get('features')
    nat = ctx.native(tuple(f for f in feats if f != 'HashSet')) if feats else ctx.native()
    out = nat.call(native_cmd(v['case']), timeout=30)
    probs = judge(out) + oracle_problems(out, v['case'])
    if probs: return 'reproduced', {'native_output': out, 'problems': probs}
    if v['kind'] == 'import-state':
        out = nat.call(native_cmd(dict(v['case'], probe=v.get('probe'))), timeout=30)
        if out.get('probe_wrong'): return 'reproduced', {'native_output': out, 'problems': ['after the round trip, %s answers wrongly: %s' % (v.get('probe'), out.get('probe_detail'))]}
        for fin in FINALS:
            out = nat.call(native_cmd(dict(v['case'], final=fin)), timeout=30)
            probs = judge(out)
            if probs: return 'reproduced', {'native_output': out, 'problems': probs, 'surfaced_by': fin}
    return 'not-reproduced', {'native_output': out}

def key(v):
    if v.get('kind') == 'export-overwrites': return 'export-overwrites:%s' % v['case']['mode']
    c = v['case']; return '%s:%s' % (v['kind'], json.dumps([c['mode'], c['n'], c['tabs'], c['history'], c['final'], c.get('features')] + (['novars'] if c.get('novars') else [])))


def validate(ctx, tier, seed):
    """native: real serde_json round trip; mirse: contract model.  Answers and node lists must agree."""
    rng = random.Random(seed * 37 + 1)
    eng = ctx.engines[ctx.engine()]; nat = ctx.native()
    mism = []; cnt = 0
    for i in range(12 if tier == 'quick' else 40):
        n = rng.choice([2, 3, 3])
        case = {'n': n, 'tabs': A.rand_tabs(rng, n), 'history': [rng.choice(HISTORY) for _ in range(rng.randint(0, 2))], 'final': rng.choice(FINALS),
                'mode': rng.choice(['serde', 'nodelist'])}
        if rng.random() < 0.4: case['novars'] = True
        out = nat.call(native_cmd(case), timeout=30)
        eng.reset_path([]); eng.path_violations = []
        try:
            adf, ra, bdd = A.make_adf(eng, [[bool(b) for b in t] for t in case['tabs']], n, create_vars=not case.get('novars'))
            for c in case['history']: c11.do_call(eng, c, adf, ra, bdd, n)
            if case['mode'] == 'nodelist': nadf, nb = rebuild_nodelist(eng, adf)
            else:
                nadf, nb = import_by_contract(eng, adf); eng.call('adf::Adf::fix_import', [Ref([nadf], 0)])
            mine = final_call(eng, case['final'], nadf, Ref([nadf], 0), nb, n)
            nodes = [[str(nd.f[0].f[0]), nd.f[1].f[0], nd.f[2].f[0]] for nd in bdd_nodes(eng, nb)]
        except Exception as ex:
            mism.append('mirse failed on %s: %r' % (json.dumps(case), ex)); continue
        if json.loads(json.dumps(mine)) != out.get('after') or nodes != out.get('nodes_final'):
            mism.append('%s: native %s / mirse %s' % (json.dumps(case), str(out)[:400], str(mine)[:200]))
        cnt += 1
    return cnt, mism


def spec(ctx, tier, seed):
    ctx.engine()
    rng = random.Random(seed * 43 + 5)
    jobs = []; mod = 'harness.c14'
    plans = []
    for mode in ('nodelist', 'serde'):
        for f in (FINALS if tier == 'thorough' else ['grounded', 'stable', 'heu_a', 'nogood:MinModMinPathsMaxVarImp', 'counts', 'post_ops']):
            plans.append((mode, [rng.choice(HISTORY) for _ in range(rng.randint(0, 2))], f))
    for i, (mode, h, f) in enumerate(plans):
        jobs.append(Job('n2-%s-%s=>%s' % (mode, '+'.join(h) or 'fresh', f), mod, 'persist_job', {'n': 2, 'fam': ['sym', 'sym'], 'history': h, 'final': f, 'mode': mode}, stop_after_violations=40))
    # bridged-shaped stores (no bare variable nodes): both round trips, fresh and grown
    bplans = [('nodelist', [], 'grounded'), ('nodelist', ['complete'], 'stable'), ('serde', ['grounded'], 'heu_a'), ('nodelist', ['stable'], 'post_ops')]
    if tier == 'thorough': bplans += [(mode, [rng.choice(HISTORY)], f) for mode in ('nodelist', 'serde') for f in FINALS]
    for mode, h, f in bplans:
        jobs.append(Job('n2-bridged-%s-%s=>%s' % (mode, '+'.join(h) or 'fresh', f), mod, 'persist_job', {'n': 2, 'fam': ['sym', 'sym'], 'history': h, 'final': f, 'mode': mode, 'novars': True}, stop_after_violations=40))
    fams = semjobs.families(3, 1, rng, 2 if tier == 'quick' else 6)
    for i, fam in enumerate(fams):
        mode, h, f = plans[(i * 5 + 1) % len(plans)]
        for mode in ('nodelist', 'serde'):
            jobs.append(Job('n3-%d-%s-%s=>%s' % (i, mode, '+'.join(h) or 'fresh', f), mod, 'persist_job', {'n': 3, 'fam': fam, 'history': h, 'final': f, 'mode': mode}, stop_after_violations=40))
        jobs.append(Job('n3-%d-bridged-nodelist-%s=>%s' % (i, '+'.join(h) or 'fresh', f), mod, 'persist_job', {'n': 3, 'fam': fam, 'history': h, 'final': f, 'mode': 'nodelist', 'novars': True}, stop_after_violations=40))
    # the CLI half: App::run of the binary crate with --export, on a stub file system whose exists() is a solver variable
    from . import c15
    ek = c15.engine(ctx)
    for mode in ('naive', 'hybrid', 'biodivine'):
        jobs.append(Job('cli-export-%s' % mode, 'harness.c15', 'export_job', {'text': c15.TEXTS[0], 'mode': mode, 'export': 'out.json', 'free': ['grounded', 'stable']}, engine_key=ek, stop_after_violations=5))
        # a name without extension / in a directory: whatever path the front end finally creates must have been tested (and found absent)
        jobs.append(Job('cli-export-%s-noext' % mode, 'harness.c15', 'export_job', {'text': c15.TEXTS[0], 'mode': mode, 'export': 'out' if mode != 'biodivine' else 'd/state', 'free': ['grounded']}, engine_key=ek, stop_after_violations=5))
    jobs.append(Job('canary', mod, 'persist_job', {'n': 2, 'fam': ['sym', 'sym'], 'history': [], 'final': 'grounded', 'mode': 'nodelist', 'canary': True}, stop_after_violations=1, canary=True))
    return {'jobs': jobs, 'level': 'model_checking', 'allowed_status': ('ok', 'panic', 'bound'),
            'assumptions': ASSUMPTIONS + ['serde_json encodes/decodes according to the derive attributes of Bdd and Adf (read from the source each run; validated natively against real serde_json on %d cases per run)' % (12 if tier == 'quick' else 40)],
            'bounds': 'all 256 two-statement ADFs and seeded 3-statement families, on native-shaped stores (variable nodes first) and bridged-shaped stores (only the diagrams nodes, as Adf::from_biodivine_vector leaves them); export after histories of 0-2 calls from {%s}; both round trips; final queries {%s}; '
                      'after import: node list and roots index by index, answer vs fresh object, audit of var_deps / count_cache / unique table and the C06 invariants' % (', '.join(HISTORY), ', '.join(FINALS)),
            'outside': 'serde_json encoder/decoder internals; the operating system behind File::create (the CLI half runs App::run on a stub file system: exists() answers with a solver variable, '
                       'a create of a path not known to be absent is the violation, replayed with the real binary on a real existing file); the web service string encoding of the node list is covered under C16'}
