"""C10 - answers do not depend on presentation: fact order, sorting, naming, layout (DESIGN.md section 5/C10, as built: 10.2)

Every presentation of an ADF is a separate program for the real binary; the definitional answer (as a set of maps label -> T/F/u) is decided
once per ADF by z3 on its formulas and every presentation's answer must equal it.  Equality with one presentation-independent oracle for
all presentations implies independence of presentation."""
import json, random, hashlib, itertools
from . import adftext as T
from .backends import Oracle, as_declared

PROCS = [('naive', 'grounded', 'grounded'), ('naive', 'complete', 'complete'), ('naive', 'stable', 'stable'), ('naive', 'twoval_channel:Simple', 'models'),
         ('hybrid', 'grounded', 'grounded'), ('biodivine', 'complete', 'complete'), ('hybrid', 'stable', 'stable'), ('naive', 'heu_a', 'stable'),
         ('naive', 'nogood:MinModMinPathsMaxVarImp', 'stable'), ('biodivine', 'stmrew2', 'stable'), ('hybrid', 'stmrew', 'stable'), ('hybrid_noopt', 'stmrew2', 'stable')]
RENAME_POOL = ['a', 'b', 'c', 'd', 'e', 'z', 'y', 'x10', 'x9', 'x2', 'X', 'B', 'and', 'or', 'neg', 'imp', 'iff', 'xor', 'ac', 's', 'c1', 'cv', 'v', 'f', '10', '9', '007',
               'st 1', 'q,1', 'u.1', 'aa', 'ab', 'Aa', 'a1', 'a10', 'a2', 'true', 'false', 'not', 'a,b', 'b,c']


def rename(f, mp):
    k = f[0]
    if k == 'atom': return ('atom', mp[f[1]])
    if k in ('top', 'bot'): return f
    return (k,) + tuple(rename(g, mp) for g in f[1:])


def presentations(rng, names, acs, count):
    out = []
    for i in range(count):
        mp = {n: n for n in names}
        if i % 2 == 1:
            pool = [x for x in RENAME_POOL]; rng.shuffle(pool)
            if i % 4 == 3:      # reserved-looking words first
                pool = [x for x in ('true', 'false', 'not', 'and', 'c', 'v', 'f') if x in pool] + [x for x in pool if x not in ('true', 'false', 'not', 'and', 'c', 'v', 'f')]
            mp = {n: pool[j] for j, n in enumerate(names)}
        rn = [mp[n] for n in names]
        racs = {mp[n]: rename(acs[n], mp) for n in names}
        facts = [('s', x) for x in rn] + [('ac', x) for x in rn]
        if i > 0: rng.shuffle(facts)
        txt = T.render(rn, racs, rng, order=facts, layout=(i % 3 == 2))
        out.append({'text': txt, 'map': mp, 'sort': ['none', 'lexi', 'alphanum'][i % 3], 'shuffled': i > 0, 'renamed': i % 2 == 1, 'reuse': i % 4 >= 2})
    return out


def custom_run(ctx, tier, seed):
    nat = ctx.native()
    rng = random.Random(seed * 19 + 4)
    confirmed = []; inconclusive = []; samples = []
    st = {'adfs': 0, 'programs': 0, 'answers': 0, 'q': 0, 't': 0.0, 'dis': 0}
    nadf = 60 if tier == "quick" else 400
    npres = 6 if tier == 'quick' else 12
    for ai in range(nadf):
        n = rng.choice([2, 3, 4, 5] if ai % 4 else [8, 15, 30])
        names = ['v%d' % i for i in range(n)]
        acs = {nm: T.rand_formula(rng, names if n <= 8 else names[max(0, i - 3):i + 4], rng.randint(0, 4)) for i, nm in enumerate(names)}
        orc = Oracle(names, acs)
        small = n <= 5
        exp = {'grounded': [orc.cls(orc.grounded())]}
        if small: exp.update({'complete': orc.complete_models(), 'stable': orc.stable_models(), 'models': orc.two_valued_models()})
        st['adfs'] += 1; st['q'] += orc.queries; st['t'] += orc.t
        for pr in presentations(rng, names, acs, npres):
            st['programs'] += 1
            inv = {v: k for k, v in pr['map'].items()}
            for backend, proc, kind in PROCS:
                if kind not in exp: continue
                out = nat.call({'cmd': 'sem_text', 'text': pr['text'], 'backend': backend, 'proc': proc, 'sort': pr['sort'], 'reuse': pr['reuse']}, timeout=120)
                key_ = 'C10:%s:%s:%s:%s' % (backend, proc, pr['sort'], hashlib.sha1(pr['text'].encode()).hexdigest()[:12])
                v = {'text': pr['text'], 'backend': backend, 'proc': proc, 'sort': pr['sort'], 'map': pr['map'], 'names': names, 'expected': exp[kind], 'reuse': pr['reuse']}
                if 'result' not in out:
                    confirmed.append((key_, dict(v, kind='no-answer', what='%s/%s gives no answer for this presentation: %s' % (backend, proc, str(out)[:160])), out)); st['dis'] += 1; continue
                bn = [inv[x] for x in out['names']]
                got = as_declared(names, {'names': bn, 'result': out['result']})
                st['answers'] += 1
                probs = []
                if sorted(got) != sorted(exp[kind]): probs.append('answers %s as label maps, every other presentation / the definition gives %s' % (got[:5], exp[kind][:5]))
                if pr['sort'] == 'lexi' and out['names'] != sorted(out['names'], key=lambda x: x.encode()): probs.append('lexicographic sorting reports statements in order %s' % out['names'])
                if probs:
                    st['dis'] += 1
                    confirmed.append((key_, dict(v, kind='presentation-dependent', what='%s/%s (%s sort, shuffled=%s, renamed=%s): %s' % (backend, proc, pr['sort'], pr['shuffled'], pr['renamed'], '; '.join(probs)),
                                                 observed=got), out))
            if len(samples) < 5 and ai % 3 == 0 and pr['renamed'] and pr['shuffled']:
                samples.append({'statements': n, 'sort': pr['sort'], 'text': pr['text'][:240], 'renaming': pr['map'] if n <= 5 else 'omitted'})
    cov = {'programs': st['programs'], 'disagreements_checked': st['dis'], 'samples': samples or [{'note': 'none'}], 'adfs': st['adfs'], 'answers_judged': st['answers'],
           'z3_queries': st['q'], 'z3_seconds': round(st['t'], 2), 'procedures': ['%s/%s' % (b, p) for b, p, _ in PROCS],
           'bounds': '%d ADFs drawn from VERIF_SEED (2-5 statements for complete / stable / two-valued, up to 30 for grounded) x %d presentations each: shuffled s/ac facts (ac may precede its s), '
                     'free layout, sort mode none / lexicographic / alphanumeric (half of them applied to a parser object that has already built an ADF), injective renaming into a pool with keyword look-alikes, digits and quoted labels; every answer is compared '
                     'with the definitional answer decided once per ADF by z3 on the formulas' % (st['adfs'], npres),
           'outside_the_bound': 'ADFs / presentations not drawn; CLI flag plumbing (C15)'}
    return {'level': 'translation_validation', 'coverage': cov, 'confirmed': confirmed, 'inconclusive': inconclusive,
            'assumptions': ['reference reader/printer of the text format (harness/adftext.py)', 'z3 decides validity of the acceptance formulas'],
            'summary': '%d ADFs x %d presentations, %d answers judged against the z3-decided definition (%d z3 queries), %d disagreements' % (st['adfs'], npres, st['answers'], st['q'], st['dis'])}


def replay(ctx, v):
    out = ctx.native().call({'cmd': 'sem_text', 'text': v['text'], 'backend': v['backend'], 'proc': v['proc'], 'sort': v['sort'], 'reuse': v.get('reuse', False)}, timeout=120)
    if 'result' not in out: return 'reproduced', out
    inv = {b: a for a, b in v['map'].items()}
    got = as_declared(v['names'], {'names': [inv[x] for x in out['names']], 'result': out['result']})
    return ('reproduced' if sorted(got) != sorted(v['expected']) else 'not-reproduced'), out
