"""C11 - cache transparency, handle stability and determinism across call histories (DESIGN.md section 5/C11)"""
import json, random, itertools
import z3
from mirse.engine import *
from mirse.hlib import *
from mirse.runner import Job
from . import adflib as A, semjobs
from .bddprops import ASSUMPTIONS
from .queryjobs import node_walk, depends, mc

CALLS = ['grounded', 'complete', 'stable', 'stable_with_prefilter', 'heu_a', 'heu_b', 'nogood:Simple', 'nogood:MinModMinPathsMaxVarImp',
         'nogood:MinModMaxVarImpMinPaths', 'twoval_channel:Simple', 'formulacounts', 'facet_count', 'extra_ops']
FINALS = ['grounded', 'complete', 'stable', 'stable_with_prefilter', 'heu_a', 'heu_b', 'nogood:Simple', 'nogood:MinModMaxVarImpMinPaths', 'twoval_channel:Simple', 'counts']


def do_call(e, name, adf, ra, bdd, n):
    """one public API call on the object; returns a comparable answer"""
    rb = Ref([bdd], 0)
    acs = adf.f[e.field('Adf', 'ac')]
    sl = SliceRef(acs.items, 0, len(acs.items))
    if name == 'formulacounts':
        return [[str(x) for x in mc(v)] for v in e.call('adf::Adf::formulacounts', [ra, True]).items] + \
               [[str(x) for x in mc(v)] for v in e.call('adf::Adf::formulacounts', [ra, False]).items]
    if name == 'facet_count':
        return [[str(x) for x in mc(v.f[0])] + [str(v.f[1].f[0]), str(v.f[1].f[1])] for v in e.call('adf::Adf::facet_count', [ra, sl]).items]
    if name == 'counts':
        out = []
        for t in acs.items:
            out.append([str(x) for x in mc(e.call('obdd::Bdd::paths', [rb, e.copyval(t), True]))] + [str(e.call('obdd::Bdd::max_depth', [rb, e.copyval(t)]))] +
                       [str(x) for x in mc(e.call('obdd::Bdd::models', [rb, e.copyval(t), False]))])
        return out
    if name == 'extra_ops':
        # extra formulas on the shared diagram: they must not disturb later answers
        a0 = e.copyval(acs.items[0]); a1 = e.copyval(acs.items[-1])
        x = e.call('obdd::Bdd::xor', [rb, a0, a1])
        y = e.call('obdd::Bdd::restrict', [rb, e.copyval(x), T(0), True])
        z = e.call('obdd::Bdd::or', [rb, e.copyval(y), e.copyval(a0)])
        e.call('obdd::Bdd::restrict', [rb, e.copyval(z), T(n - 1), False])
        e.call('obdd::Bdd::imp', [rb, e.copyval(a0), e.copyval(a1)])
        e.call('obdd::Bdd::iff', [rb, e.copyval(a1), e.copyval(x)])
        return None
    res, side = semjobs.run_proc(e, name, ra, adf)
    return [A.classes(e, v) for v in res]


def ite_probe(i, t, el):
    """the public operation that looks up the memo entry (i,t,e)"""
    if (t, el) == (0, 1): return {'op': 'not', 'a': i}
    if el == 0: return {'op': 'and', 'a': i, 'b': t}
    if t == 1: return {'op': 'or', 'a': i, 'b': el}
    if el == 1: return {'op': 'imp', 'a': i, 'b': t}
    return {'op': 'iff_or_xor', 'a': i, 'b': t, 'c': el}


def audit_memo(e, bdd, n, tabs_of_handle):
    """every entry of the private memo tables is semantically right (read directly: MIR execution sees private fields)"""
    nodes = bdd_nodes(e, bdd)
    probs = []
    def tab(h): return tabs_of_handle(h)
    def hv(t):
        x = tv(t); return e.concretize(x) if is_sym(x) else x
    ite = bdd.f[e.field('Bdd', 'ite_cache')]
    for key_, val in ite.e:
        i, t, el = (hv(x) for x in key_.f); r = hv(val[0])
        if i <= 1 or t == el or (t, el) == (1, 0): continue      # if_then_else answers these before it consults the memo table: entry unreachable
        ti, tt, te, tr = tab(i), tab(t), tab(el), tab(r)
        c = z3.Or(*[zb(tr[a]) != z3.If(zb(ti[a]), zb(tt[a]), zb(te[a])) for a in range(1 << n)])
        if sat_model(e, c) is not None: probs.append(('ite_cache[(%d,%d,%d)] = %d is not if-then-else of its operands' % (i, t, el, r), ite_probe(i, t, el)))
    rc = bdd.f[e.field('Bdd', 'restrict_cache')]
    for key_, val in rc.e:
        t = hv(key_.f[0]); v = hv(key_.f[1]); b = key_.f[2]; b = e.branch(b) if is_sym(b) else b
        r = hv(val[0]); tt, tr = tab(t), tab(r)
        want = [tt[(a | (1 << v)) if b else (a & ~(1 << v))] for a in range(1 << n)] if v < n else tt
        c = z3.Or(*[zb(x) != zb(y) for x, y in zip(tr, want)])
        if sat_model(e, c) is not None: probs.append(('restrict_cache[(%d,%d,%s)] = %d is not the cofactor' % (t, v, b, r), {'op': 'restrict', 'a': t, 'var': v, 'val': bool(b)}))
    if 'var_deps' in e.structs['Bdd']:
        vd = bdd.f[e.field('Bdd', 'var_deps')]
        if len(vd.items) != len(nodes): probs.append(('var_deps has %d entries for %d nodes' % (len(vd.items), len(nodes)), {'op': 'deps', 'a': len(nodes) - 1}))
        for i, s in enumerate(vd.items[:len(nodes)]):
            got = set(hv(x) for x in s.e); tt = tab(i)
            conds = [(z3.Not(depends(tt, v, n)) if v in got else depends(tt, v, n)) for v in range(n)]
            if any(v >= n for v in got) or sat_model(e, z3.Or(*conds)) is not None: probs.append(('var_deps[%d] = %s is not the support' % (i, sorted(got)), {'op': 'deps', 'a': i}))
    cc = bdd.f[e.field('Bdd', 'count_cache')].c[0]
    feats = e.features
    for key_, val in cc.e:
        t = hv(key_); (cm, mo), (pc0, pc1), d = mc(val[0].f[0]), mc(val[0].f[1]), val[0].f[2]
        wp = node_walk(e, nodes, t)
        if (pc0, pc1, d) != wp: probs.append(('count_cache[%d] paths/depth = %s, recomputed %s' % (t, (pc0, pc1, d), wp), {'op': 'counts', 'a': t}))
        if 'adhoccountmodels' in feats or 'adhoccounting' not in feats:
            tt = tab(t); sat = z3.Sum([z3.If(zb(b), 1, 0) for b in tt])
            if sat_model(e, z3.Or(mo * (1 << n) != sat * (cm + mo), z3.BoolVal(cm + mo == 0))) is not None:
                probs.append(('count_cache[%d] model counts (%s,%s) wrong' % (t, cm, mo), {'op': 'counts', 'a': t}))
    return probs


def hist_job(e, p):
    n = p['n']; hist = p['history']; final = p['final']; canary = p.get('canary')
    tabs = A.family_tabs(n, p['fam'])
    if p.get('hash_perm'): e.hooks['hash_perm'] = True
    def case(m):
        c = {'n': n, 'tabs': tables_from_model(m, [[zb(b) for b in t] for t in tabs]), 'history': hist, 'final': final}
        if p.get('novars'): c['novars'] = True
        return c
    def on_panic(e_, msg):
        m = sat_model(e_, True)
        if m is not None: report(e_, 'panic', what='call history panics: %s' % msg[:200], case=case(m))
    e.hooks['on_panic'] = on_panic
    # novars: bridged-shaped store (only the diagrams' nodes, as Adf::from_biodivine_vector leaves it; variable nodes appear lazily)
    adf, ra, bdd = A.make_adf(e, tabs, n, create_vars=not p.get('novars'))
    first = {}
    for c in hist:
        r = do_call(e, c, adf, ra, bdd, n)
        if c in first and r is not None and sorted(map(str, r)) != sorted(map(str, first[c])):
            m = sat_model(e, True); report(e, 'repeat-differs', what='%s answered %s first and %s when repeated' % (c, first[c], r), case=case(m))
        first.setdefault(c, r)
    got = do_call(e, final, adf, ra, bdd, n)
    # handle stability: the acceptance-condition handles still denote the submitted functions
    nodes = bdd_nodes(e, bdd)
    acs = adf.f[e.field('Adf', 'ac')]
    conds = []
    for s in range(n):
        tb = table(e, nodes, tv(acs.items[s]), n)
        conds += [differs(g, zb(w)) for g, w in zip(tb, tabs[s])]
    m = sat_model(e, e.or_all(conds))
    if m is not None: report(e, 'handle-changed', what='an acceptance-condition handle denotes another function after the history', case=case(m))
    # private memo state
    memo = {}
    def tabs_of_handle(h):
        if h not in memo: memo[h] = table(e, nodes, h, n)
        return memo[h]
    for pr, probe in audit_memo(e, bdd, n, tabs_of_handle):
        m = sat_model(e, True); report(e, 'memo-corrupt', what=pr, case=case(m), probe=probe)
    # the same query on a freshly built object
    if p.get('hash_perm'): e.hooks['hash_perm'] = False
    adf2, ra2, bdd2 = A.make_adf(e, tabs, n, create_vars=not p.get('novars'))
    fresh = do_call(e, final, adf2, ra2, bdd2, n)
    if canary: fresh = list(fresh) + ['canary']
    if final in ('grounded', 'complete', 'stable', 'stable_with_prefilter', 'heu_a', 'heu_b') or final.startswith(('nogood', 'twoval')):
        wrong = semjobs.answer_mismatch(e, p['fam'], tabs, n, final, got)
        if wrong is not None:
            report(e, 'history-dependent', what='%s after %s = %s, the definition gives %s' % (final, hist, got, wrong[2]), case=case(wrong[0]), observed=got, expected=wrong[2], oracle=True)
    if sorted(map(str, got)) != sorted(map(str, fresh)):
        m = sat_model(e, True)
        report(e, 'history-dependent', what='%s after %s = %s, on a fresh object = %s' % (final, hist, got, fresh), case=case(m), observed=got, expected=fresh)
    return {'history': hist, 'final': final, 'answer': got, 'nodes': len(nodes)}

# ------------------------------------------------------------------ native side

def native_cmd(case): return dict(case, cmd='adf_history')

def rand_twin_job(e, p):
    """"with the same seed for Rand": the same call sequence on two freshly built objects that were given the same seed.  A seed fixes the draw sequence
    of the object's generator, so both runs receive the *same* solver variables as draws (the rand model numbers seeded draws per run); any other
    source of randomness (thread-local generator, entropy) hands out unrelated variables.  The answers must be equal as ordered lists."""
    n = p['n']; procs = p['procs']
    tabs = A.family_tabs(n, p['fam'])
    e.hooks['entropy_is_unseeded'] = True; e.hooks['max_draws'] = p.get('max_draws', 40)
    def case(m): return {'n': n, 'tabs': tables_from_model(m, [[zb(b) for b in t] for t in tabs]), 'history': procs, 'final': 'rand-twin'}
    runs = []
    for run in range(2):
        e.hooks['draws'] = 0
        adf, ra, bdd = A.make_adf(e, tabs, n)
        e.call('adf::Adf::seed', [ra, VecObj([7] + [0] * 31)])
        out = []
        for pr in procs:
            res, _ = semjobs.run_proc(e, pr, ra, adf)
            out.append([A.classes(e, v) for v in res])
        runs.append(out)
    if p.get('canary'): runs[1] = [list(reversed(x)) + ['canary'] for x in runs[1]]
    if runs[0] != runs[1]:
        m = sat_model(e, True)
        report(e, 'not-reproducible', what='same seed, same call sequence %s on two fresh objects: first run %s, second run %s' % (procs, runs[0], runs[1]), case=case(m))
    return {'procs': procs, 'draws': e.hooks.get('draws', 0), 'unseeded_draws': e.hooks.get('entropy_draws', 0)}


def replay_twin(ctx, v):
    """natively: the call sequence with a fixed seed on fresh objects, repeated; transcripts must be identical (and every answer a correct set)"""
    c = v['case']; nat = ctx.native()
    for sd in (1, 7, 12345):
        seen = None
        for rep in range(25):
            tr = []
            # adf_sem builds a fresh object, seeds it and runs one procedure; a sequence is replayed by its first procedure only when it has one element
            for pr in c['history']:
                out = nat.call({'cmd': 'adf_sem', 'n': c['n'], 'tabs': c['tabs'], 'proc': pr, 'seed': sd}, timeout=10)
                tr.append(out.get('result'))
            if seen is None: seen = tr
            elif tr != seen: return 'reproduced', {'seed': sd, 'first_transcript': seen, 'differing_transcript': tr, 'repetition': rep}
    return 'not-reproduced', {'note': '25 repetitions under 3 seeds gave identical transcripts'}


def oracle_problems(out, case):
    """the native answer of a semantics procedure judged against the definition (python oracle on the concrete tables)"""
    fin = case['final']
    if not (fin in ('grounded', 'complete', 'stable', 'stable_with_prefilter', 'heu_a', 'heu_b') or fin.startswith(('nogood', 'twoval'))): return []
    if not isinstance(out.get('after'), list): return []
    exp = semjobs.py_oracle(semjobs.oracle_kind(fin), case['tabs'], case['n'])
    got = out['after']
    if sorted(got) != sorted(exp): return ['%s answers %s, the definition gives %s' % (fin, got, exp)]
    return []


def judge(out):
    if 'after' not in out: return ['native run failed: %s' % str(out)[:200]]
    probs = []
    if sorted(map(str, out['after'])) != sorted(map(str, out['fresh'])): probs.append('after the history: %s, fresh object: %s' % (out['after'], out['fresh']))
    if out.get('tables_changed'): probs.append('acceptance-condition handles changed their function')
    if out.get('repeat_differs'): probs.append('a repeated call answered differently')
    return probs

def replay(ctx, v):
    if v['kind'] == 'not-reproducible': return replay_twin(ctx, v)
    out = ctx.native().call(native_cmd(v['case']), timeout=30)
    probs = judge(out) + oracle_problems(out, v['case'])
    if probs: return 'reproduced', {'native_output': out, 'problems': probs}
    if v['kind'] == 'memo-corrupt':
        # a corrupt memo entry is latent state: surface it natively through the public operation that consults exactly this entry
        out = ctx.native().call(native_cmd(dict(v['case'], probe=v.get('probe'))), timeout=30)
        if out.get('probe_wrong'): return 'reproduced', {'native_output': out, 'problems': ['after the history, %s answers wrongly: %s' % (v.get('probe'), out.get('probe_detail'))]}
        for fin in FINALS:
            out = ctx.native().call(native_cmd(dict(v['case'], final=fin)), timeout=30)
            probs = judge(out)
            if probs: return 'reproduced', {'native_output': out, 'problems': probs, 'surfaced_by': fin}
    return 'not-reproduced', {'native_output': out}

def key(v):
    c = v['case']; return '%s:%s' % (v['kind'], json.dumps([c['n'], c['tabs'], c['history'], c['final']] + (['novars'] if c.get('novars') else [])))


def validate(ctx, tier, seed):
    rng = random.Random(seed * 29 + 3)
    eng = ctx.engines[ctx.engine()]; nat = ctx.native()
    mism = []; cnt = 0
    for i in range(10 if tier == 'quick' else 40):
        n = rng.choice([2, 3, 3])
        case = {'n': n, 'tabs': A.rand_tabs(rng, n), 'history': [rng.choice(CALLS) for _ in range(rng.randint(1, 3))], 'final': rng.choice(FINALS)}
        if i % 3 == 2: case['novars'] = True
        out = nat.call(native_cmd(case), timeout=30)
        eng.reset_path([]); eng.path_violations = []
        try:
            adf, ra, bdd = A.make_adf(eng, [[bool(b) for b in t] for t in case['tabs']], n, create_vars=not case.get('novars'))
            for c in case['history']: do_call(eng, c, adf, ra, bdd, n)
            mine = do_call(eng, case['final'], adf, ra, bdd, n)
            nodes = [[str(nd.f[0].f[0]), nd.f[1].f[0], nd.f[2].f[0]] for nd in bdd_nodes(eng, bdd)]
        except Exception as ex:
            mism.append('mirse failed on %s: %r' % (json.dumps(case), ex)); continue
        if json.loads(json.dumps(mine)) != out.get('after') or nodes != out.get('nodes'):
            mism.append('%s: native %s / mirse %s' % (json.dumps(case), str(out)[:300], str(mine)[:200]))
        cnt += 1
    return cnt, mism


def spec(ctx, tier, seed):
    ctx.engine()
    rng = random.Random(seed * 41 + 9)
    jobs = []; mod = 'harness.c11'
    hists = []
    nh = 10 if tier == 'quick' else 40
    for i in range(nh):
        hists.append(([rng.choice(CALLS) for _ in range(rng.randint(1, 3 if tier == 'quick' else 5))], rng.choice(FINALS)))
    hists += [(['heu_a', 'formulacounts'], 'stable'), (['nogood:Simple', 'nogood:Simple'], 'grounded'), (['extra_ops', 'complete'], 'heu_b'), (['stable', 'stable'], 'counts')]
    for i, (h, f) in enumerate(hists):
        jobs.append(Job('n2-%d-%s=>%s' % (i, '+'.join(h), f), mod, 'hist_job', {'n': 2, 'fam': ['sym', 'sym'], 'history': h, 'final': f}, stop_after_violations=40))
    fams = semjobs.families(3, 1, rng, 2 if tier == 'quick' else 6)
    for i, fam in enumerate(fams):
        h, f = hists[i % len(hists)]
        jobs.append(Job('n3-%d-%s=>%s' % (i, '+'.join(h), f), mod, 'hist_job', {'n': 3, 'fam': fam, 'history': h, 'final': f}, stop_after_violations=40))
    # bridged-shaped stores: no bare variable nodes up front
    for i, (h, f) in enumerate(hists[:3] + hists[-4:] if tier == 'quick' else hists[::2]):
        jobs.append(Job('n2-bridged-%d-%s=>%s' % (i, '+'.join(h), f), mod, 'hist_job', {'n': 2, 'fam': ['sym', 'sym'], 'history': h, 'final': f, 'novars': True}, stop_after_violations=40))
    # determinism: hash containers iterate in every possible order during the history
    jobs.append(Job('n2-hashorder-heu_a+facet_count=>stable', mod, 'hist_job', {'n': 2, 'fam': ['sym', [0, 1, 1, 0]], 'history': ['facet_count', 'heu_a'], 'final': 'stable', 'hash_perm': True},
                    stop_after_violations=40))
    # determinism under a fixed seed for Rand: twin runs on fresh objects with the same seed
    jobs.append(Job('rand-twin-n2-twoval', mod, 'rand_twin_job', {'n': 2, 'fam': ['sym', 'sym'], 'procs': ['twoval_channel:Rand']}, stop_after_violations=10, max_steps=20_000_000))
    jobs.append(Job('rand-twin-n2-nogood', mod, 'rand_twin_job', {'n': 2, 'fam': ['sym', [0, 1, 1, 0]], 'procs': ['nogood:Rand']}, stop_after_violations=10, max_steps=20_000_000))
    # (three-statement families with symbolic draws did not finish within 20 minutes on 8 cores: outside every tier, stated in the bounds)
    jobs.append(Job('canary', mod, 'hist_job', {'n': 2, 'fam': ['sym', 'sym'], 'history': ['grounded'], 'final': 'stable', 'canary': True}, stop_after_violations=1, canary=True))
    return {'jobs': jobs, 'level': 'model_checking', 'allowed_status': ('ok', 'panic', 'bound'),
            'assumptions': ASSUMPTIONS + ['crossbeam channel FIFO model', 'Rand: a seed fixes the draw sequence (twin runs receive the same solver variables as draws); draws from the thread-local generator or from entropy are unrelated between runs'],
            'bounds': '%d call histories of length 1-%d drawn from VERIF_SEED over {%s} followed by a final query from {%s}, each on all 256 two-statement ADFs; 3-statement families with one symbolic statement; '
                      'one job where every hash-container iteration order is explored (symbolic permutation). After each history: answer vs fresh object, acceptance handles vs submitted tables, '
                      'audit of every entry of ite_cache / restrict_cache / var_deps / count_cache / unique table.' % (len(hists), 3 if tier == 'quick' else 5, ', '.join(CALLS), ', '.join(FINALS)),
            'outside': 'histories longer than stated; Rand in the fresh-object comparison (covered by C05; here only its reproducibility under a fixed seed, on all two-statement ADFs); objects of the biodivine-based Adf type (bridged-shaped stores of the naive type are included)'}
