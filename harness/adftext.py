"""Reference reader / writer for the documented ADF text format (independent of the code under test):
formula ASTs, a PEG recogniser for the grammar, a random generator, and the translation of ASTs to z3."""
import random, re
import z3

# AST: ('top',) ('bot',) ('atom', name) ('neg', f) (op, f, g) with op in and/or/imp/xor/iff
BINOPS = ['and', 'or', 'imp', 'xor', 'iff']


class ParseError(Exception): pass


def is_alnum(c): return c.isalnum()      # nom alphanumeric1 on &str: ASCII letters and digits
def is_ascii_alnum(c): return c.isascii() and c.isalnum()


class Reader:
    """PEG for:  file := (s-fact | ac-fact)+ EOF;  s-fact := 's(' atomic ').' ws;  ac-fact := 'ac(' atomic ws ',' ws formula ').' ws
    formula := 'c(v)' | 'c(f)' | binop '(' formula ws ',' ws formula ')' | 'neg(' formula ')' | atomic   (ordered choice)
    atomic := '"' [^"]* '"' | [A-Za-z0-9]+"""
    def __init__(self, s): self.s = s

    def ws(self, i):
        while i < len(self.s) and self.s[i] in ' \t\r\n': i += 1
        return i

    def tag(self, i, t):
        if self.s.startswith(t, i): return i + len(t)
        raise ParseError('expected %r at %d' % (t, i))

    def atomic(self, i):
        s = self.s
        if i < len(s) and s[i] == '"':
            j = s.find('"', i + 1)
            if j < 0: raise ParseError('unterminated quote')
            return j + 1, s[i + 1:j]
        j = i
        while j < len(s) and is_ascii_alnum(s[j]): j += 1
        if j == i: raise ParseError('label expected at %d' % i)
        return j, s[i:j]

    def formula(self, i):
        s = self.s
        for t, node in (('c(v)', ('top',)), ('c(f)', ('bot',))):
            if s.startswith(t, i): return i + len(t), node
        for op in BINOPS:
            if s.startswith(op, i):
                try:
                    j = self.tag(i + len(op), '(')
                    j, f = self.formula(j)
                    j = self.ws(j); j = self.tag(j, ','); j = self.ws(j)
                    j, g = self.formula(j)
                    j = self.tag(j, ')')
                    return j, (op, f, g)
                except ParseError:
                    pass
        if s.startswith('neg', i):
            try:
                j = self.tag(i + 3, '(')
                j, f = self.formula(j)
                j = self.tag(j, ')')
                return j, ('neg', f)
            except ParseError:
                pass
        j, name = self.atomic(i)
        return j, ('atom', name)

    def fact(self, i):
        s = self.s
        try:
            j = self.tag(i, 's'); j = self.tag(j, '(')
            j, name = self.atomic(j)
            j = self.tag(j, ')'); j = self.tag(j, '.'); j = self.ws(j)
            return j, ('s', name)
        except ParseError:
            pass
        j = self.tag(i, 'ac'); j = self.tag(j, '(')
        j, name = self.atomic(j)
        j = self.ws(j); j = self.tag(j, ','); j = self.ws(j)
        j, f = self.formula(j)
        j = self.tag(j, ')'); j = self.tag(j, '.'); j = self.ws(j)
        return j, ('ac', name, f)

    def file(self):
        i = 0; facts = []
        i, f = self.fact(i); facts.append(f)
        while i < len(self.s):
            i, f = self.fact(i); facts.append(f)
        return facts


def parse(text):
    """-> (statements in declaration order, {name: formula}) or raises ParseError"""
    facts = Reader(text).file()
    names = []; acs = {}
    for f in facts:
        if f[0] == 's':
            if f[1] not in names: names.append(f[1])
        else: acs[f[1]] = f[2]
    return names, acs, facts


def show(f, comma=None):
    k = f[0]
    if k == 'top': return 'c(v)'
    if k == 'bot': return 'c(f)'
    if k == 'atom': return f[1] if re.fullmatch(r'[A-Za-z0-9]+', f[1]) else '"%s"' % f[1]
    if k == 'neg': return 'neg(%s)' % show(f[1], comma)
    return '%s(%s%s%s)' % (k, show(f[1], comma), comma() if comma else ',', show(f[2], comma))


def atoms(f, out=None):
    out = out if out is not None else set()
    if f[0] == 'atom': out.add(f[1])
    elif f[0] not in ('top', 'bot'):
        for g in f[1:]: atoms(g, out)
    return out


def to_z3(f, var):
    k = f[0]
    if k == 'top': return z3.BoolVal(True)
    if k == 'bot': return z3.BoolVal(False)
    if k == 'atom': return var(f[1])
    if k == 'neg': return z3.Not(to_z3(f[1], var))
    a, b = to_z3(f[1], var), to_z3(f[2], var)
    return {'and': z3.And, 'or': z3.Or, 'imp': z3.Implies, 'xor': z3.Xor, 'iff': lambda x, y: x == y}[k](a, b)


def evalf(f, asg):
    k = f[0]
    if k == 'top': return True
    if k == 'bot': return False
    if k == 'atom': return asg[f[1]]
    if k == 'neg': return not evalf(f[1], asg)
    a, b = evalf(f[1], asg), evalf(f[2], asg)
    return {'and': a and b, 'or': a or b, 'imp': (not a) or b, 'xor': a != b, 'iff': a == b}[k]


def rand_clause(rng, names):
    """conjunction / disjunction of literals over few statements: repeated and complementary literals are likely"""
    op = rng.choice(['and', 'or'])
    scope = rng.sample(names, min(len(names), rng.randint(1, 3)))
    def lit():
        a = ('atom', rng.choice(scope))
        return ('neg', a) if rng.random() < 0.4 else a
    f = lit()
    for _ in range(rng.randint(1, 4)):
        f = (op, f, lit()) if rng.random() < 0.5 else (op, lit(), f)
    return f


def rand_formula(rng, names, depth, pconst=0.06):
    if depth >= 2 and rng.random() < 0.08: return rand_clause(rng, names)
    if depth <= 0 or rng.random() < 0.18:
        r = rng.random()
        if r < pconst: return ('top',) if rng.random() < 0.5 else ('bot',)
        return ('atom', rng.choice(names))
    if rng.random() < 0.2: return ('neg', rand_formula(rng, names, depth - 1, pconst))
    if rng.random() < 0.04:
        f = rand_formula(rng, names, depth - 1, pconst)       # a connective applied to two equal operands
        return (rng.choice(BINOPS), f, f)
    return (rng.choice(BINOPS), rand_formula(rng, names, depth - 1, pconst), rand_formula(rng, names, depth - 1, pconst))


LABEL_POOL = ['a', 'b', 'c', 'n', 's', 'ac', 'and', 'or', 'neg', 'imp', 'andy', 'cv', 'c1', 'xor1', 'iff', 'v', 'f', 'x10', 'x9', 'x2', 'B', 'Z', 'a1', 'a10', 'a2', '007', '7', 'true', 'false', 'not']


def rand_adf(rng, n, depth, quoted=0.1, locality=None):
    """random ADF: (names, {name: formula}).  Labels include keyword look-alikes and quoted labels."""
    names = []
    pool = list(LABEL_POOL); rng.shuffle(pool)
    while len(names) < n:
        if pool and rng.random() < 0.5: nm = pool.pop()
        elif rng.random() < quoted: nm = rng.choice(['st %d' % len(names), 'x-%d' % len(names), 'q,%d' % len(names), 'u.%d' % len(names), 'y %d z' % len(names)])
        else: nm = 'v%d' % len(names)
        if nm not in names: names.append(nm)
    acs = {}
    for i, nm in enumerate(names):
        if locality:
            lo = max(0, i - locality); scope = names[lo:i + locality + 1]
        else: scope = names
        acs[nm] = rand_formula(rng, scope, rng.randint(0, depth))
    return names, acs


def rand_adf_colliding(rng, n):
    """quoted labels that contain the separator characters of the text format next to their own parts as labels: a, b, c, "a,b", "b,c", ...
    (two different formulas then have the same rendering once the quotes are dropped); always at least 6 statements"""
    names = ['a', 'b', 'c', 'a,b', 'b,c', 'd'] + ['c,a', 'a,b,c', 'b,a', 'd,a'][:max(0, n - 6)]
    while len(names) < n: names.append('v%d' % len(names))
    acs = {}
    for nm in names:
        x, y, z = rng.sample(names, 3)
        acs[nm] = rng.choice([(rng.choice(['and', 'or']), ('atom', x), ('atom', y)), ('and', ('atom', x), ('or', ('atom', y), ('atom', z))), ('neg', ('atom', x)), ('atom', x), ('top',), ('bot',)])
    # one guaranteed pair: and("a,b",c) and and(a,"b,c") print alike without quotes but differ; their four arguments are
    # self-supporting statements, so that the difference shows in the models
    for x in ('a', 'c', 'a,b', 'b,c'): acs[x] = ('atom', x)
    rest = [x for x in names if x not in ('a', 'c', 'a,b', 'b,c')]
    p, q = (rest + rest)[:2] if len(rest) >= 2 else (rest[0], rest[0])
    op = rng.choice(['and', 'or'])
    acs[p] = (op, ('atom', 'a,b'), ('atom', 'c'))
    if q != p: acs[q] = (op, ('atom', 'a'), ('atom', 'b,c'))
    return names, acs


def rand_adf_attacks(rng, n):
    """argumentation-style ADFs: statements attacked / supported by one or two others (negation-heavy, cycles of length 2-3, chains),
    the shapes on which stable and two-valued semantics branch and propagate"""
    names = ['s%d' % i for i in range(n)]
    acs = {}
    for i, nm in enumerate(names):
        others = [x for x in names if x != nm] or [nm]
        r = rng.random()
        a, b = rng.choice(others), rng.choice(others)
        if r < 0.35: acs[nm] = ('neg', ('atom', a))
        elif r < 0.50: acs[nm] = ('atom', a)
        elif r < 0.62: acs[nm] = ('and', ('neg', ('atom', a)), ('neg', ('atom', b)))
        elif r < 0.72: acs[nm] = ('or', ('atom', a), ('neg', ('atom', b)))
        elif r < 0.80: acs[nm] = ('and', ('atom', nm), ('atom', a)) if rng.random() < 0.5 else ('or', ('atom', nm), ('atom', a))
        elif r < 0.88: acs[nm] = ('neg', ('and', ('atom', a), ('atom', b)))
        elif r < 0.94: acs[nm] = ('top',) if rng.random() < 0.5 else ('bot',)
        else: acs[nm] = rand_formula(rng, names[:5], 2)
    return names, acs


def rand_adf_structured(rng, n):
    """ADFs in which the semantics actually propagate: facts and anti-facts, self-supporting statements and negative cycles (stay
    undecided), and statements derived from the others by small formulas incl. if-then-else shapes, so that values decided in one
    round decide further statements in later rounds while undecided selectors remain"""
    names = []
    pool = list(LABEL_POOL); rng.shuffle(pool)
    while len(names) < n:
        nm = pool.pop() if pool and rng.random() < 0.4 else 'v%d' % len(names)
        if nm not in names: names.append(nm)
    order = list(names); rng.shuffle(order)
    acs = {}
    for i, nm in enumerate(order):
        r = rng.random()
        others = [x for x in names if x != nm] or [nm]
        def lit(): 
            a = ('atom', rng.choice(others))
            return ('neg', a) if rng.random() < 0.3 else a
        if r < 0.27: acs[nm] = ('top',) if rng.random() < 0.6 else ('bot',)
        elif r < 0.39: acs[nm] = ('atom', nm)                                  # self-support: undecided in the grounded interpretation
        elif r < 0.44: acs[nm] = ('neg', ('atom', rng.choice(names)))
        elif r < 0.64:
            x, y, z = lit(), lit(), lit()
            acs[nm] = ('or', ('and', x, y), ('and', ('neg', x), z))            # if x then y else z
        elif r < 0.70: acs[nm] = (rng.choice(['and', 'or']), lit(), lit())
        elif r < 0.77: acs[nm] = rand_clause(rng, names)
        elif r < 0.85: acs[nm] = (rng.choice(['imp', 'iff', 'xor']), lit(), lit())
        else: acs[nm] = rand_formula(rng, others[:6], rng.randint(1, 3))
    return names, acs


def render(names, acs, rng=None, order=None, layout=False):
    """documented format; order = list of facts as ('s', name) / ('ac', name); layout adds the permitted whitespace"""
    if order is None: order = [('s', n) for n in names] + [('ac', n) for n in names]
    def ws(): return rng.choice(['', ' ', '\n', '  ', '\t']) if layout and rng else ''
    out = []
    for kind, nm in order:
        lab = show(('atom', nm))
        if kind == 's': out.append('s(%s).%s' % (lab, ws()))
        else:
            body = show(acs[nm], (lambda: ws() + ',' + ws()) if layout and rng else None)
            out.append('ac(%s%s,%s%s).%s' % (lab, ws(), ws(), body, ws()))
    return ''.join(out)
