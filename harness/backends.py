"""E3 for the semantics on every back-end (native / biodivine / hybrid with and without pre-grounding, all variants):
the real binary computes the answer for a concrete text; z3 decides the definition on the *formulas* of that text
(validity / unsatisfiability queries, no brute-force enumeration of assignments) and the two are compared.
This reaches the back-ends whose library internals cannot be executed symbolically (biodivine) and instances far beyond
the symbolic bound (grounded: up to 60 statements)."""
import json, random, time, hashlib, itertools
import z3
from . import adftext as T
from .semjobs import repo_test_instances

MATRIX = {
    'grounded': [('naive', 'grounded'), ('biodivine', 'grounded'), ('hybrid', 'grounded'), ('hybrid_noopt', 'grounded'), ('hybrid_rew', 'grounded')],
    'complete': [('naive', 'complete'), ('biodivine', 'complete'), ('hybrid', 'complete'), ('hybrid_noopt', 'complete'), ('hybrid_rew', 'complete')],
    'stable': [('naive', 'stable'), ('naive', 'stable_with_prefilter'), ('biodivine', 'stable'), ('biodivine', 'stmrew'), ('biodivine', 'stmrew2'),
               ('hybrid', 'stable'), ('hybrid', 'stable_with_prefilter'), ('hybrid', 'stmrew'), ('hybrid', 'stmrew2'), ('hybrid_noopt', 'stable'), ('hybrid_rew', 'stable')],
    'stable_counting': [('hybrid', 'heu_a'), ('hybrid', 'heu_b'), ('hybrid_noopt', 'heu_a'), ('naive', 'heu_a'), ('naive', 'heu_b')],
    'stable_nogood': [('hybrid', 'nogood:Simple'), ('hybrid', 'nogood:MinModMinPathsMaxVarImp'), ('hybrid_noopt', 'nogood:MinModMaxVarImpMinPaths'), ('naive', 'nogood:Simple')],
    'models_nogood': [('hybrid', 'twoval_channel:Simple'), ('naive', 'twoval_channel:MinModMinPathsMaxVarImp')],
}


class Oracle:
    """definitions decided by z3 on the formulas of one ADF"""
    def __init__(self, names, acs):
        self.names = names; self.acs = acs
        self.X = {n: z3.Bool('x%d' % i) for i, n in enumerate(names)}
        self.F = {n: T.to_z3(acs[n], lambda a: self.X[a]) for n in names}
        self.s = z3.Solver(); self.queries = 0; self.t = 0.0

    def valid(self, f):
        self.queries += 1; t = time.time(); r = self.s.check(z3.Not(f)); self.t += time.time() - t
        return r == z3.unsat
    def unsat(self, f):
        self.queries += 1; t = time.time(); r = self.s.check(f); self.t += time.time() - t
        return r == z3.unsat

    def gamma(self, v, F=None):
        """one application of the three-valued consequence operator to v: {name: True/False} (undecided absent)"""
        F = F or self.F
        sub = [(self.X[n], z3.BoolVal(b)) for n, b in v.items()]
        out = {}
        for n in self.names:
            f = z3.substitute(F[n], *sub) if sub else F[n]
            f = z3.simplify(f)
            if z3.is_true(f): out[n] = True
            elif z3.is_false(f): out[n] = False
            elif self.valid(f): out[n] = True
            elif self.unsat(f): out[n] = False
        return out

    def grounded(self, F=None):
        v = {}
        while True:
            w = self.gamma(v, F)
            w.update(v)          # monotone: decided values stay
            if w == v: return v
            v = w

    def cls(self, v): return ''.join('T' if v.get(n) is True else 'F' if v.get(n) is False else 'u' for n in self.names)

    def complete_models(self):
        out = []
        for c in itertools.product('TFu', repeat=len(self.names)):
            v = {n: (x == 'T') for n, x in zip(self.names, c) if x != 'u'}
            if self.gamma(v) == v: out.append(''.join(c))
        return sorted(out)

    def two_valued_models(self):
        if len(self.names) > 10: return self.two_valued_models_allsat()
        out = []
        for c in itertools.product('TF', repeat=len(self.names)):
            v = {n: (x == 'T') for n, x in zip(self.names, c)}
            if self.gamma(v) == v: out.append(''.join(c))
        return sorted(out)

    def two_valued_models_allsat(self):
        """for larger instances: the two-valued models are the satisfying assignments of AND(x_s <-> ac_s), enumerated by z3 with blocking clauses"""
        s2 = z3.Solver(); s2.add(*[self.X[n] == self.F[n] for n in self.names])
        out = []
        while True:
            self.queries += 1; t = time.time(); r = s2.check(); self.t += time.time() - t
            if r != z3.sat: break
            m = s2.model()
            v = [z3.is_true(m.eval(self.X[n], model_completion=True)) for n in self.names]
            out.append(''.join('T' if b else 'F' for b in v))
            s2.add(z3.Or(*[self.X[n] != z3.BoolVal(b) for n, b in zip(self.names, v)]))
            if len(out) > 5000: raise RuntimeError('more than 5000 two-valued models')
        return sorted(out)

    def stable_models(self):
        out = []
        for m in self.two_valued_models():
            v = {n: (x == 'T') for n, x in zip(self.names, m)}
            sub = [(self.X[n], z3.BoolVal(False)) for n in self.names if not v[n]]
            red = {n: (z3.substitute(self.F[n], *sub) if sub else self.F[n]) for n in self.names}
            g = self.grounded(red)
            if all(g.get(n) is True for n in self.names if v[n]): out.append(m)
        return sorted(out)


def as_declared(names, out):
    """back-end answers come in the back-end's variable order: re-express them in the declared order"""
    bn = out['names']
    idx = [bn.index(n) for n in names]
    return [''.join(r[i] for i in idx) for r in out['result']]


def programs(kind, tier, seed):
    rng = random.Random(seed * 11 + len(kind))
    progs = []
    big = kind == 'grounded'
    for txt in repo_test_instances():
        try: names, acs, _ = T.parse(txt)
        except T.ParseError: continue
        if set(acs) == set(names) and all(T.atoms(f) <= set(names) for f in acs.values()) and (big or len(names) <= 6): progs.append((txt, names, acs, 'repo'))
    if tier == 'quick': progs = progs[:6]
    k = (160 if tier == "quick" else 1000) if big else (30 if tier == "quick" else 200) if kind == 'complete' else (90 if tier == "quick" else 400)
    for i in range(k):
        if big: n = rng.choice([4, 5, 6, 8, 10, 15, 25, 40, 60, 70, 90, 130] if i % 5 else [70, 90, 130, 300])
        elif kind == 'complete': n = rng.choice([2, 3, 4, 5] if tier == 'quick' else [2, 3, 4, 5, 6])
        else: n = rng.choice([2, 3, 4, 5, 6] if tier == 'quick' else [3, 4, 5, 6, 7, 8])
        if not big and i % 3 == 1: names, acs = T.rand_adf_attacks(rng, n)
        elif i % 6 == 3: names, acs = T.rand_adf_colliding(rng, 6 if not big else rng.choice([6, 8, 10]))
        elif i % 2 == 0: names, acs = T.rand_adf_structured(rng, n)
        else: names, acs = T.rand_adf(rng, n, rng.choice([1, 2, 3, 5]), locality=3 if n > 8 else None)
        facts = [('s', x) for x in names] + [('ac', x) for x in names]
        if rng.random() < 0.5: rng.shuffle(facts)
        progs.append((T.render(names, acs, rng, order=facts, layout=rng.random() < 0.3), names, acs, 'seeded n=%d' % n))
    return progs


def many_model_programs(tier, seed):
    """instances with several hundred stable models (k independent pairs of mutually attacking statements, some with a guard): result buffers, channels and
    de-duplication of the search procedures are exercised beyond what 8 statements can produce"""
    rng = random.Random(seed * 13 + 3)
    progs = []
    for k in ([9] if tier == 'quick' else [9, 10, 9]):
        names = []; acs = {}
        for i in range(k):
            a, b = 'p%d' % i, 'q%d' % i
            names += [a, b]; acs[a] = ('neg', ('atom', b)); acs[b] = ('neg', ('atom', a))
        if len(progs) == 2:          # one variant with a statement every model decides
            names.append('g'); acs['g'] = ('or', ('atom', 'p0'), ('atom', 'q0'))
        order = names[:]; rng.shuffle(order)
        facts = [('s', x) for x in order] + [('ac', x) for x in order]
        progs.append((T.render(order, acs, rng, order=facts, layout=False), order, acs, 'many models: %d pairs' % k))
    return progs


def run_backends(ctx, tier, seed, kinds):
    """-> (confirmed [(key, violation, detail)], coverage dict, inconclusive list)"""
    nat = ctx.native()
    confirmed = []; inconclusive = []; samples = []; many_cache = {}
    stats = {'programs': 0, 'answers_judged': 0, 'z3_queries': 0, 'z3_seconds': 0.0, 'disagreements': 0, 'hangs': 0}
    for kind in kinds:
        okind = {'stable_counting': 'stable', 'stable_nogood': 'stable', 'models_nogood': 'models'}.get(kind, kind)
        plist = programs(okind if kind == okind else 'stable', tier, seed)
        if kind in ('stable_nogood', 'models_nogood', 'stable_counting'): plist = plist + many_model_programs(tier, seed)
        for pi, (txt, names, acs, origin) in enumerate(plist):
            orc = Oracle(names, acs)
            many = origin.startswith('many models')
            if many and (txt, okind) in many_cache: exp = many_cache[(txt, okind)]
            elif okind == 'grounded': exp = [orc.cls(orc.grounded())]
            elif okind == 'complete': exp = orc.complete_models()
            elif okind == 'models': exp = orc.two_valued_models()
            else: exp = orc.stable_models()
            if many: many_cache[(txt, okind)] = exp
            g0 = orc.cls(orc.grounded()) if okind == 'complete' else None
            stats['programs'] += 1; stats['z3_queries'] += orc.queries; stats['z3_seconds'] += orc.t
            for backend, proc in MATRIX[kind]:
                # the object that carries the stable rewriting holds one diagram for the conjunction of all equivalences s <-> ac_s: exponential in the
                # number of statements (measured: > 120 s and > 1.3 GB at 70+ statements), so this back-end is exercised on small instances only
                if backend == 'hybrid_rew' and len(names) > 10: continue
                sort = ['none', 'lexi', 'alphanum'][(pi + len(proc)) % 3]
                # several hundred models: the optimised build of the same library (the nogood search is quadratic in the number of models)
                if stats['hangs'] >= 2: continue          # two confirmed hangs are evidence enough; every further one would cost minutes
                out = (ctx.native(release=True) if many else nat).call({'cmd': 'sem_text', 'text': txt, 'backend': backend, 'proc': proc, 'sort': sort}, timeout=120)
                if out.get('timeout'):
                    # no answer within two minutes: before this counts as a hang, the optimised build gets another three minutes (a loaded machine must not raise
                    # an alarm; measured: the slowest call of the unchanged tree takes 1.3 s optimised)
                    out = ctx.native(release=True).call({'cmd': 'sem_text', 'text': txt, 'backend': backend, 'proc': proc, 'sort': sort}, timeout=180)
                    stats['slow_answers'] = stats.get('slow_answers', 0) + 1
                    if out.get('timeout'): stats['hangs'] += 1
                if 'result' not in out:
                    # a hang or a panic on a well-formed ADF is itself a violation ("an empty result, not an error")
                    confirmed.append(('%s:%s:%s:%s' % (backend, proc, sort, hashlib.sha1(txt.encode()).hexdigest()[:12]),
                                      {'kind': 'no-answer', 'release': many, 'what': '%s on back-end %s (%s sort) gives no answer: %s' % (proc, backend, sort, str(out)[:200]), 'text': txt,
                                       'backend': backend, 'proc': proc, 'sort': sort, 'expected': exp}, out))
                    continue
                got = as_declared(names, out)
                stats['answers_judged'] += 1
                bad = sorted(got) != sorted(exp) or (okind != 'grounded' and len(set(got)) != len(got)) or (okind == 'complete' and got and got[0] != g0)
                if len(samples) < 5 and pi % 3 == 0 and backend != 'naive':
                    samples.append({'origin': origin, 'backend': backend, 'proc': proc, 'sort': sort, 'statements': len(names), 'answer': got[:4], 'text': txt[:200]})
                if bad:
                    stats['disagreements'] += 1
                    confirmed.append(('%s:%s:%s:%s' % (backend, proc, sort, hashlib.sha1(txt.encode()).hexdigest()[:12]),
                                      {'kind': 'wrong-' + okind, 'what': '%s on back-end %s (%s sort) answers %s, the definition (decided by z3 on the formulas) gives %s (statements %s)'
                                       % (proc, backend, sort, got[:6], exp[:6], names), 'release': many, 'text': txt, 'backend': backend, 'proc': proc, 'sort': sort, 'expected': exp, 'observed': got}, out))
    cov = {'backend_programs': stats['programs'], 'backend_answers_judged': stats['answers_judged'], 'backend_z3_queries': stats['z3_queries'],
           'backend_z3_seconds': round(stats['z3_seconds'], 2), 'backend_disagreements': stats['disagreements'], 'backend_samples': samples,
           'backend_matrix': {k: ['%s/%s' % bp for bp in MATRIX[k]] for k in kinds},
           'backend_note': 'real binary (incl. the real biodivine library and bridge) on concrete texts; the expected answer is decided by z3 validity/unsatisfiability queries on the '
                           'formulas of the text (grounded: up to 300 statements; complete/stable: candidates enumerated, each judged by z3; for the search procedures additionally instances with 512+ '
                           'stable models on 18+ statements, their two-valued models enumerated by z3 with blocking clauses, run on the optimised build)'}
    return confirmed, cov, inconclusive


def replay_backend(ctx, v):
    out = ctx.native(release=bool(v.get('release'))).call({'cmd': 'sem_text', 'text': v['text'], 'backend': v['backend'], 'proc': v['proc'], 'sort': v['sort']}, timeout=120)
    if out.get('timeout'): out = ctx.native(release=True).call({'cmd': 'sem_text', 'text': v['text'], 'backend': v['backend'], 'proc': v['proc'], 'sort': v['sort']}, timeout=180)
    if 'result' not in out: return 'reproduced', out
    names, acs, _ = T.parse(v['text'])
    got = as_declared(names, out)
    return ('reproduced' if sorted(got) != sorted(v['expected']) else 'not-reproduced'), out
