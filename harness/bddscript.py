"""Symbolic interpreter for diagram-operation scripts on one store, executed through the real MIR of obdd.rs.

A script is a list of steps; operands refer to the results of earlier steps.  Any scalar in a step may be a
z3 expression (truth-table bits, restriction variable / value) or a Choice (operand picked among the
handles issued so far - explored exhaustively).  After every step the C06 invariants and the C07 function
specification are decided by the solver under the path condition.
"""
import z3
from mirse.engine import *
from mirse.hlib import *

BIN = {'and': lambda a, b: z3.And(a, b), 'or': lambda a, b: z3.Or(a, b), 'xor': lambda a, b: z3.Xor(a, b),
       'imp': lambda a, b: z3.Implies(a, b), 'iff': lambda a, b: a == b}
BINOPS_L = ['and', 'or', 'imp', 'iff', 'xor']

class Choice:
    def __init__(self, label='operand'): self.label = label


class Store:
    """one Bdd under test + the specification tables of every handle issued"""
    def __init__(self, e, n, canary=None, check=True, features=None):
        self.e = e; self.n = n; self.features = features
        self.bdd, self.r = new_bdd(e)
        self.handles = []        # Term structs
        self.spec = []           # per handle: list of z3 Bool / python bool (spec table)
        self.script = []         # concrete-isable script (values may be z3)
        self.canary = canary
        self.check = check
        self.obligations = 0

    def nodes(self): return bdd_nodes(self.e, self.bdd)

    # ----- script execution -----
    def operand(self, x):
        if isinstance(x, Choice):
            return self.e.choose(len(self.handles), x.label)
        return x

    def step(self, st):
        e = self.e; n = self.n; r = self.r
        op = st['op']
        st = dict(st)
        before = [(nd.f[0].f[0], nd.f[1].f[0], nd.f[2].f[0]) for nd in self.nodes()]
        if op == 'shannon':
            bits = st['bits']
            h = build_shannon(e, r, bits, n)
            spec = [bool(b) if isinstance(b, int) else b for b in bits]
        elif op == 'variable':
            v = st['var']
            if is_sym(v): v = e.concretize(v)
            st['var'] = v
            h = e.call('obdd::Bdd::variable', [r, T(v)])
            spec = [bool((a >> v) & 1) for a in range(1 << n)]
        elif op == 'constant':
            b = st['val']
            b = e.branch(b) if is_sym(b) else b
            st['val'] = b
            h = e.call('obdd::Bdd::constant', [b]); spec = [b] * (1 << n)
        elif op == 'not':
            a = self.operand(st['a']); st['a'] = a
            h = e.call('obdd::Bdd::not', [r, e.copyval(self.handles[a])])
            spec = [e.not_(x) for x in self.spec[a]]
        elif op in BIN:
            a = self.operand(st['a']); b = self.operand(st['b']); st['a'] = a; st['b'] = b
            h = e.call('obdd::Bdd::' + op, [r, e.copyval(self.handles[a]), e.copyval(self.handles[b])])
            spec = [z3.simplify(BIN[op](zb(x), zb(y))) for x, y in zip(self.spec[a], self.spec[b])]
        elif op == 'restrict':
            a = self.operand(st['a']); st['a'] = a
            var = st['var']; val = st['val']
            if is_sym(var): var = e.concretize(var)
            if is_sym(val): val = e.branch(val)
            st['var'] = var; st['val'] = val
            h = e.call('obdd::Bdd::restrict', [r, e.copyval(self.handles[a]), T(var), val])
            if var < n:
                spec = [self.spec[a][(asg | (1 << var)) if val else (asg & ~(1 << var))] for asg in range(1 << n)]
            else:
                spec = list(self.spec[a])
        elif op in ('reimport', 'serde_reimport'):
            if op == 'reimport':
                nodes = VecObj([e.copyval(x) for x in self.nodes()])
                nb = e.call('<obdd::Bdd as From<Vec<bdd::BddNode>>>::from', [nodes])
            else:
                # JSON export + import by the serde derive contract (read from the source) + the documented repair step
                from .c14 import import_bdd_by_contract
                nb = import_bdd_by_contract(e, self.bdd)
                e.call('obdd::Bdd::fix_import', [Ref([nb], 0)])
            oldn = before
            self.bdd = nb; self.r = Ref([nb], 0)
            newn = [(nd.f[0].f[0], nd.f[1].f[0], nd.f[2].f[0]) for nd in self.nodes()]
            self.script.append(st)
            self.handles.append(T(0)); self.spec.append([False] * (1 << n))
            if self.check:
                if len(oldn) != len(newn) or any(not same_scalar(x, y) for p, q in zip(oldn, newn) for x, y in zip(p, q)):
                    self.violation('reimport-renumbers', '%s does not reproduce the node list index by index' % op, None)
                self.check_invariants()
            return len(self.handles) - 1
        else:
            raise Unsupported('script op ' + op)
        if self.canary == 'spec' and op not in ('shannon',):
            spec = [e.not_(x) for x in spec]          # deliberately wrong specification: must be reported
        self.script.append(st)
        self.handles.append(h); self.spec.append(spec)
        if self.check:
            self.check_step(before, len(self.handles) - 1)
        return len(self.handles) - 1

    # ----- properties -----
    def violation(self, kind, what, model, **kw):
        e = self.e
        if model is None:
            model = e.solver.model() if e.check() == z3.sat else None
        report(e, kind, what=what, replay=self.concrete_script(model), **kw)

    def concrete_script(self, m):
        out = []
        for st in self.script:
            c = {}
            for k, v in st.items():
                if k == 'bits': c[k] = [1 if mbool(m, b) else 0 for b in v]
                elif is_sym(v): c[k] = mbool(m, v) if z3.is_bool(v) else mint(m, v)
                else: c[k] = v
            out.append(c)
        d = {'cmd': 'bdd_script', 'n': self.n, 'steps': out}
        if self.features: d['features'] = self.features
        return d

    def check_step(self, before, k):
        e = self.e; n = self.n
        nodes = self.nodes()
        # C07: no operation changes a previously issued handle: the node table is append-only
        now = [(nd.f[0].f[0], nd.f[1].f[0], nd.f[2].f[0]) for nd in nodes]
        self.obligations += 1
        if len(now) < len(before) or any(not same_scalar(x, y) for p, q in zip(before, now) for x, y in zip(p, q)):
            self.violation('prefix-changed', 'an operation rewrote existing nodes', None, step=k)
        # C07: the result denotes the named function - decided per assignment under the path condition
        h = tv(self.handles[k])
        got = table(e, nodes, h, n)
        diff = e.or_all([differs(g, w) for g, w in zip(got, self.spec[k])])
        self.obligations += 1
        m = sat_model(e, diff)
        if m is not None:
            self.violation('wrong-function', 'result of %s differs from the specified function' % self.script[k]['op'], m, step=k,
                           expected=[1 if mbool(m, zb(w)) else 0 for w in self.spec[k]], observed=[1 if mbool(m, zb(g)) else 0 for g in got])
        # C06: a handle is top/bottom iff its function is valid/unsatisfiable; same handle iff same function
        for j in range(k):
            hj = tv(self.handles[j])
            same_h = e.eq_vals(h, hj)
            same_f = e.and_all([e.not_(differs(zb(x), zb(y))) for x, y in zip(self.spec[k], self.spec[j])])
            if self.canary == 'canon': same_f = e.not_(same_f)
            self.obligations += 1
            m = sat_model(e, differs(zb(same_h), zb(same_f)))
            if m is not None:
                self.violation('non-canonical', 'handles %d,%d: handle equality does not coincide with function equality' % (j, k), m, step=k)
        valid = e.and_all([zb(x) for x in self.spec[k]]); unsat = e.and_all([e.not_(zb(x)) for x in self.spec[k]])
        self.obligations += 2
        for cond, name in ((differs(zb(e.eq_vals(h, 1)), zb(valid)), 'top'), (differs(zb(e.eq_vals(h, 0)), zb(unsat)), 'bottom')):
            m = sat_model(e, cond)
            if m is not None:
                self.violation('constant-collapse', 'handle is %s iff function is %s fails' % (name, 'valid' if name == 'top' else 'unsatisfiable'), m, step=k)
        self.check_invariants(step=k)

    def check_invariants(self, step=None):
        """reduced, ordered, duplicate-free, children precede parents, unique table <-> node table"""
        e = self.e
        nodes = self.nodes()
        now = [(nd.f[0].f[0], nd.f[1].f[0], nd.f[2].f[0]) for nd in nodes]
        bad = []
        for i, (v, lo, hi) in enumerate(now):
            if i < 2: continue
            self.obligations += 1
            if sat_model(e, zb(e.eq_vals(lo, hi))) is not None: bad.append('node %d has equal branches' % i)
            for ch in (lo, hi):
                if is_sym(ch): continue          # symbolic child = leaf term (0/1): terminal, later than any variable
                if ch >= i: bad.append('node %d: child %d not earlier in the table' % (i, ch))
                elif ch > 1:
                    cv = now[ch][0]
                    if e.branch(e.binop('Le', cv, v, 'usize')): bad.append('node %d: child %d does not test a later variable' % (i, ch))
            for j in range(2, i):
                self.obligations += 1
                c = e.and_all([zb(e.eq_vals(x, y)) for x, y in zip(now[j], now[i])])
                if sat_model(e, c) is not None: bad.append('nodes %d and %d are duplicates' % (j, i))
        # unique table <-> node table
        cache = self.bdd.f[e.field('Bdd', 'cache')]
        if len(cache.e) != len(now) - 2: bad.append('unique table has %d entries for %d nodes' % (len(cache.e), len(now) - 2))
        for key, val in cache.e:
            t = tv(val[0])
            if is_sym(t): t = e.concretize(t)
            if not (2 <= t < len(now)): bad.append('unique table points outside the node table'); continue
            kk = (key.f[0].f[0], key.f[1].f[0], key.f[2].f[0])
            if sat_model(e, e.not_(e.and_all([zb(e.eq_vals(x, y)) for x, y in zip(kk, now[t])]))) is not None:
                bad.append('unique table entry for handle %d does not match its node' % t)
        for b in bad:
            self.violation('store-invariant', b, None, step=step)


def same_scalar(x, y):
    if is_sym(x) or is_sym(y):
        return is_sym(x) and is_sym(y) and x.eq(y)
    return x == y
