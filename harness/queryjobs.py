"""C13 / C12: diagram queries (counts, depth, supports, impacts, path cubes) on diagrams built from symbolic
truth tables, each answer compared with its definition by z3 under the path condition."""
import json, random, itertools
import z3
from mirse.engine import *
from mirse.hlib import *
from mirse.models import unguard
from . import adflib as A


def mc(x):
    """ModelCounts struct -> (cmodels, models)"""
    return (x.f[0], x.f[1])


def works_memo_models(features):
    """documented exception: memoised model counting is unusable with adhoccounting but without adhoccountmodels"""
    return not ('adhoccounting' in features and 'adhoccountmodels' not in features)


def node_walk(e, nodes, h):
    """(paths to 0, paths to 1, depth) recomputed from the path's node table (leaf handles are decided by the path condition)"""
    memo = {}
    def rec(t):
        if is_sym(t): t = e.concretize(t)
        if t == 0: return (1, 0, 0)
        if t == 1: return (0, 1, 0)
        if t in memo: return memo[t]
        nd = nodes[t]
        l = rec(nd.f[1].f[0]); h_ = rec(nd.f[2].f[0])
        r = (l[0] + h_[0], l[1] + h_[1], max(l[2], h_[2]) + 1)
        memo[t] = r; return r
    return rec(h)


def depends(tab, v, n):
    return z3.Or(*[zb(tab[a]) != zb(tab[a ^ (1 << v)]) for a in range(1 << n) if not (a >> v) & 1])


def query_job(e, p):
    n = p['n']; feats = set(p.get('features', ())); canary = p.get('canary')
    tabs = A.family_tabs(n, p['fam'])
    fi = p['focus']                     # index of the diagram under query
    def case(m):
        return {'n': n, 'tabs': tables_from_model(m, [[zb(b) for b in t] for t in tabs]), 'focus': fi, 'features': sorted(feats)}
    def on_panic(e_, msg):
        m = sat_model(e_, True)
        if m is not None: report(e_, 'panic', what='query panics: %s' % msg[:200], case=case(m), query='panic')
    e.hooks['on_panic'] = on_panic
    adf, ra, bdd = A.make_adf(e, tabs, n)
    rb = Ref([bdd], 0)
    acs = adf.f[e.field('Adf', 'ac')]
    nodes = bdd_nodes(e, bdd)
    f = e.copyval(acs.items[fi])
    h = tv(f)
    tab = tabs[fi]
    sat = z3.Sum([z3.If(zb(b), 1, 0) for b in tab])
    bad = []        # (query name, z3 condition that must be unsat, observed)
    def expect(name, cond, observed):
        m = sat_model(e, cond)
        if m is not None:
            report(e, 'wrong-answer', what='%s = %s contradicts the definition' % (name, observed), case=case(m), query=name, observed=str(observed))
    wp = node_walk(e, nodes, h)
    # --- depth on the fresh object (before any counting call has filled a memo table), asked again at the end
    d0 = e.call('obdd::Bdd::max_depth', [rb, e.copyval(f)])
    if d0 != wp[2]: expect('max_depth(fresh)', True, d0)
    # --- path counts, depth
    for memo in (True, False):
        pc_ = mc(e.call('obdd::Bdd::paths', [rb, e.copyval(f), memo]))
        if canary: pc_ = (pc_[0] + 1, pc_[1])
        if (pc_[0], pc_[1]) != (wp[0], wp[1]): expect('paths(memo=%s)' % memo, True, pc_)
    d = e.call('obdd::Bdd::max_depth', [rb, e.copyval(f)])
    if d != wp[2]: expect('max_depth', True, d)
    # --- model counts: exact ratio + normalisation to 2^depth
    variants = [False] + ([True] if works_memo_models(feats) else [])
    for memo in variants:
        cm, mo = mc(e.call('obdd::Bdd::models', [rb, e.copyval(f), memo]))
        tot = cm + mo
        # the property asks for the exact ratio of models to counter-models (and agreement of the procedures), not for a particular normalisation
        expect('models(memo=%s)' % memo, z3.Or(mo * (1 << n) != sat * tot, z3.BoolVal(tot == 0)), (cm, mo))
    # --- support
    deps = e.call('obdd::Bdd::var_dependencies', [rb, e.copyval(f)])
    got = set()
    for x in deps.e:
        v = tv(x); got.add(e.concretize(v) if is_sym(v) else v)
    conds = []
    for v in range(n):
        dv = depends(tab, v, n)
        conds.append(z3.Not(dv) if v in got else dv)
    if any(v >= n for v in got): conds.append(z3.BoolVal(True))
    expect('var_dependencies', z3.Or(*conds), sorted(got))
    # --- impacts
    sl = SliceRef(acs.items, 0, len(acs.items))
    for v in range(n):
        pi = e.call('obdd::Bdd::passive_var_impact', [rb, T(v), sl])
        expect('passive_var_impact(%d)' % v, z3.Sum([z3.If(depends(tabs[s], v, n), 1, 0) for s in range(n)]) != pi, pi)
        ai = e.call('obdd::Bdd::active_var_impact', [rb, T(v), sl])
        expect('active_var_impact(%d)' % v, z3.Sum([z3.If(depends(tabs[v], w, n), 1, 0) for w in range(n)]) != ai, ai)
    # the same two measures on a list that is shorter than the variable universe (the list, not the store, defines the positions counted)
    if n >= 2:
        sl2 = SliceRef(acs.items, 0, n - 1)
        for v in range(n - 1):
            ai = e.call('obdd::Bdd::active_var_impact', [rb, T(v), sl2])
            expect('active_var_impact(%d, first %d conditions)' % (v, n - 1), z3.Sum([z3.If(depends(tabs[v], w, n), 1, 0) for w in range(n - 1)]) != ai, ai)
        for v in range(n):
            pi = e.call('obdd::Bdd::passive_var_impact', [rb, T(v), sl2])
            expect('passive_var_impact(%d, first %d conditions)' % (v, n - 1), z3.Sum([z3.If(depends(tabs[s], v, n), 1, 0) for s in range(n - 1)]) != pi, pi)
    # --- path cubes
    if not is_sym(h) and h > 1:        # a symbolic handle is a leaf term: constant diagram
        empty = SliceRef([], 0, 0)
        for goal in (False, True):
            for gv in range(n + 1):
                res = e.call('obdd::Bdd::interpretations', [rb, e.copyval(f), goal, T(gv), empty, empty])
                cubes = []
                for it_ in res.items:
                    neg = [e.concretize(tv(x)) if is_sym(tv(x)) else tv(x) for x in it_.f[0].items]
                    pos = [e.concretize(tv(x)) if is_sym(tv(x)) else tv(x) for x in it_.f[1].items]
                    cubes.append((neg, pos))
                def match(c, a): return all(not (a >> v) & 1 for v in c[0]) and all((a >> v) & 1 for v in c[1])
                probs = []
                for a in range(1 << n):
                    k = sum(1 for c in cubes if match(c, a))
                    if k > 1: probs.append(z3.BoolVal(True))       # cubes overlap
                    if gv < n and ((a >> gv) & 1) != int(goal): continue
                    isgoal = zb(tab[a]) if goal else z3.Not(zb(tab[a]))
                    probs.append(z3.Not(isgoal) if k >= 1 else isgoal)
                if any(set(c[0]) & set(c[1]) for c in cubes): probs.append(z3.BoolVal(True))
                expect('interpretations(goal=%s,goal_var=%d)' % (goal, gv), z3.Or(*probs), cubes)
    # --- Adf-level counts
    for memo in variants:
        fc = e.call('adf::Adf::formulacounts', [ra, memo])
        cm, mo = mc(fc.items[fi])
        expect('formulacounts(memo=%s)' % memo, mo * (1 << n) != sat * (cm + mo), (cm, mo))
    fcs = e.call('adf::Adf::facet_count', [ra, sl])
    cm, mo = mc(fcs.items[fi].f[0])
    expect('facet_count.models', mo * (1 << n) != sat * (cm + mo), (cm, mo))
    return {'focus': fi, 'handle': str(h), 'paths': wp[:2], 'depth': wp[2], 'nodes': len(nodes)}


def counts_kernel_job(e, p):
    """ModelCounts::{minimum, more_models} at full machine width"""
    cm = z3.BitVec('cmodels', 64); mo = z3.BitVec('models', 64)
    x = Struct([cm, mo]); r = Ref([x], 0)
    mn = e.call('bdd::ModelCounts::minimum', [r])
    mm = e.call('bdd::ModelCounts::more_models', [r])
    want_min = z3.If(z3.ULE(mo, cm), mo, cm)
    want_mm = z3.UGE(mo, cm)
    if p.get('canary'): want_mm = z3.Not(want_mm)
    m = sat_model(e, differs(mm if not isinstance(mm, bool) else mm, want_mm))
    if m is not None:
        report(e, 'wrong-answer', what='more_models(cmodels=%d, models=%d) = %s' % (mint(m, cm), mint(m, mo), mbool(m, zb(mm))), query='more_models',
               counts=[str(mint(m, cm)), str(mint(m, mo))])
    m = sat_model(e, (mn if is_sym(mn) else z3.BitVecVal(mn, 64)) != want_min)
    if m is not None:
        report(e, 'wrong-answer', what='minimum(cmodels=%d, models=%d) wrong' % (mint(m, cm), mint(m, mo)), query='minimum', counts=[str(mint(m, cm)), str(mint(m, mo))])
    return {'kernel': 'ModelCounts', 'more_models': str(mm)[:80]}

# ------------------------------------------------------------------ native judging (python reference)

def py_support(tab, n):
    return sorted(v for v in range(n) if any(tab[a] != tab[a ^ (1 << v)] for a in range(1 << n)))

def py_walk(nodes, h):
    memo = {}
    def rec(t):
        if t == 0: return (1, 0, 0)
        if t == 1: return (0, 1, 0)
        if t in memo: return memo[t]
        v, lo, hi = nodes[t]; l = rec(lo); r = rec(hi)
        memo[t] = (l[0] + r[0], l[1] + r[1], max(l[2], r[2]) + 1); return memo[t]
    return rec(h)

def judge_queries(out, case):
    if 'panic' in out or 'paths' not in out: return ['native run failed: %s' % str(out)[:300]]
    n = case['n']; tabs = case['tabs']; fi = case['focus']; tab = tabs[fi]; feats = set(case.get('features', ()))
    nodes = [(int(v), lo, hi) for v, lo, hi in out['nodes']]
    h = out['handle']
    wp = py_walk(nodes, h)
    sat = sum(tab)
    probs = []
    for memo in ('true', 'false'):
        if tuple(out['paths'][memo]) != wp[:2]: probs.append('paths(memo=%s) = %s, diagram has %s' % (memo, out['paths'][memo], wp[:2]))
    if out['max_depth_fresh'] != wp[2]: probs.append('max_depth on the fresh object = %d, longest path = %d' % (out['max_depth_fresh'], wp[2]))
    if out['max_depth'] != wp[2]: probs.append('max_depth = %d, longest path = %d' % (out['max_depth'], wp[2]))
    for memo in (['false', 'true'] if works_memo_models(feats) else ['false']):
        for name in ('models', 'formulacounts'):
            cm, mo = out[name][memo]
            if mo * (1 << n) != sat * (cm + mo) or cm + mo == 0:
                probs.append('%s(memo=%s) = (%d,%d) for a function with %d of %d models, depth %d' % (name, memo, cm, mo, sat, 1 << n, wp[2]))
    cm, mo = out['facet_models']
    if mo * (1 << n) != sat * (cm + mo): probs.append('facet_count model counts (%d,%d) wrong' % (cm, mo))
    if sorted(out['deps']) != py_support(tab, n): probs.append('var_dependencies = %s, support = %s' % (sorted(out['deps']), py_support(tab, n)))
    for v in range(n):
        if out['passive'][v] != sum(1 for s in range(n) if v in py_support(tabs[s], n)): probs.append('passive_var_impact(%d) = %d' % (v, out['passive'][v]))
        if out['active'][v] != len(py_support(tabs[v], n)): probs.append('active_var_impact(%d) = %d' % (v, out['active'][v]))
    for v in range(n - 1):
        if 'active_partial' in out and out['active_partial'][v] != len([w for w in py_support(tabs[v], n) if w < n - 1]): probs.append('active_var_impact(%d) on the first %d conditions = %d' % (v, n - 1, out['active_partial'][v]))
    for v in range(n):
        if 'passive_partial' in out and out['passive_partial'][v] != sum(1 for s in range(n - 1) if v in py_support(tabs[s], n)): probs.append('passive_var_impact(%d) on the first %d conditions = %d' % (v, n - 1, out['passive_partial'][v]))
    for ent in out.get('cubes', []):
        goal, gv, cubes = ent['goal'], ent['goal_var'], ent['cubes']
        def match(c, a): return all(not (a >> v) & 1 for v in c[0]) and all((a >> v) & 1 for v in c[1])
        for a in range(1 << n):
            k = sum(1 for c in cubes if match(c, a))
            if k > 1: probs.append('interpretations(goal=%s,goal_var=%d): cubes overlap' % (goal, gv)); break
            if gv < n and ((a >> gv) & 1) != int(goal): continue
            if (k >= 1) != (tab[a] == int(goal)): probs.append('interpretations(goal=%s,goal_var=%d): assignment %d covered=%s but function value %d' % (goal, gv, a, k >= 1, tab[a])); break
    return probs


def replay(ctx, v):
    from vlib import build
    if v.get('query') in ('more_models', 'minimum'):
        out = ctx.native().call({'cmd': 'counts_kernel', 'cmodels': v['counts'][0], 'models': v['counts'][1]})
        cm, mo = int(v['counts'][0]), int(v['counts'][1])
        probs = []
        if out.get('more_models') != (mo >= cm): probs.append('more_models(%d,%d) = %s' % (cm, mo, out.get('more_models')))
        if str(out.get('minimum')) != str(min(cm, mo)): probs.append('minimum wrong')
        return ('reproduced', {'native_output': out, 'problems': probs}) if probs else ('not-reproduced', {'native_output': out})
    case = v['case']
    feats = tuple(f for f in case.get('features', build.DEFAULT_FEATURES) if f != 'HashSet')
    nat = ctx.native(feats)
    out = nat.call({'cmd': 'bdd_query', 'n': case['n'], 'tabs': case['tabs'], 'focus': case['focus']})
    probs = judge_queries(out, case)
    if probs: return 'reproduced', {'native_output': out, 'problems': probs[:6]}
    return 'not-reproduced', {'native_output': out}


def key(v):
    if 'counts' in v: return '%s:%s' % (v['query'], 'kernel')
    c = v['case']
    return '%s:%s:%s:f%d:%s' % (v['kind'], v.get('query'), '+'.join(c.get('features', [])), c['focus'], json.dumps(c['tabs']))


def run_concrete(eng, case):
    """same queries, concrete, through mirse (engine validation)"""
    n = case['n']; tabs = case['tabs']; fi = case['focus']
    eng.reset_path([]); eng.path_violations = []
    adf, ra, bdd = A.make_adf(eng, [[bool(b) for b in t] for t in tabs], n)
    rb = Ref([bdd], 0); acs = adf.f[eng.field('Adf', 'ac')]; f = acs.items[fi]
    sl = SliceRef(acs.items, 0, len(acs.items))
    out = {'handle': tv(f), 'paths': {}, 'models': {}, 'formulacounts': {}}
    out['max_depth_fresh'] = eng.call('obdd::Bdd::max_depth', [rb, eng.copyval(f)])
    for memo in (True, False):
        out['paths'][str(memo).lower()] = list(mc(eng.call('obdd::Bdd::paths', [rb, eng.copyval(f), memo])))
        out['models'][str(memo).lower()] = list(mc(eng.call('obdd::Bdd::models', [rb, eng.copyval(f), memo])))
        out['formulacounts'][str(memo).lower()] = list(mc(eng.call('adf::Adf::formulacounts', [ra, memo]).items[fi]))
    out['max_depth'] = eng.call('obdd::Bdd::max_depth', [rb, eng.copyval(f)])
    out['deps'] = sorted(tv(x) for x in eng.call('obdd::Bdd::var_dependencies', [rb, eng.copyval(f)]).e)
    out['passive'] = [eng.call('obdd::Bdd::passive_var_impact', [rb, T(v), sl]) for v in range(n)]
    out['active'] = [eng.call('obdd::Bdd::active_var_impact', [rb, T(v), sl]) for v in range(n)]
    out['facet_models'] = list(mc(eng.call('adf::Adf::facet_count', [ra, sl]).items[fi].f[0]))
    sl2 = SliceRef(acs.items, 0, n - 1)
    out['active_partial'] = [eng.call('obdd::Bdd::active_var_impact', [rb, T(v), sl2]) for v in range(n - 1)]
    out['passive_partial'] = [eng.call('obdd::Bdd::passive_var_impact', [rb, T(v), sl2]) for v in range(n)]
    cubes = []
    if tv(f) > 1:
        empty = SliceRef([], 0, 0)
        for goal in (False, True):
            for gv in range(n + 1):
                res = eng.call('obdd::Bdd::interpretations', [rb, eng.copyval(f), goal, T(gv), empty, empty])
                cubes.append({'goal': goal, 'goal_var': gv, 'cubes': [[[tv(x) for x in it_.f[0].items], [tv(x) for x in it_.f[1].items]] for it_ in res.items]})
    out['cubes'] = cubes
    out['nodes'] = [[str(nd.f[0].f[0]), nd.f[1].f[0], nd.f[2].f[0]] for nd in bdd_nodes(eng, bdd)]
    return out


def validate_features(ctx, tier, seed, feature_sets):
    from vlib import build
    rng = random.Random(seed * 13 + 7)
    mism = []; cnt = 0
    cases = []
    for i in range(6 if tier == 'quick' else 20):
        n = rng.choice([2, 3, 3, 4])
        cases.append({'n': n, 'tabs': A.rand_tabs(rng, n), 'focus': rng.randrange(n)})
    for feats in feature_sets:
        key_ = ctx.engine(feats); eng = ctx.engines[key_]; nat = ctx.native(feats)
        for case in cases:
            c = dict(case, features=sorted(build.closure(feats)))
            out = nat.call({'cmd': 'bdd_query', 'n': c['n'], 'tabs': c['tabs'], 'focus': c['focus']})
            try:
                mine = run_concrete(eng, c)
            except RustPanic as ex:
                mine = {'panic': str(ex)}
            except Exception as ex:
                mism.append('mirse failed (%s) on %s: %r' % (build.fkey(feats), json.dumps(c), ex)); continue
            if 'panic' in mine or 'panic' in out:
                if ('panic' in mine) != ('panic' in out): mism.append('panic mismatch (%s) on %s: native %s mirse %s' % (build.fkey(feats), json.dumps(c), str(out)[:200], str(mine)[:200]))
                cnt += 1; continue
            for k in mine:
                if json.loads(json.dumps(mine[k])) != out.get(k):
                    mism.append('%s (%s) on %s: native %s / mirse %s' % (k, build.fkey(feats), json.dumps(c), str(out.get(k))[:200], str(mine[k])[:200])); break
            cnt += 1
    return cnt, mism


def make_jobs(Job, tier, seed, feature_sets, engine_keys, canary=True, light=False):
    """feature_sets: list of tuples; engine_keys: parallel list of engine registry keys"""
    from vlib import build
    rng = random.Random(seed * 101 + 3)
    jobs = []; mod = 'harness.queryjobs'
    fams3 = [A.rand_tabs(rng, 3) for _ in range(1 if light else (2 if tier == 'quick' else 5))]
    fam4 = A.rand_tabs(rng, 4)
    for feats, ek in zip(feature_sets, engine_keys):
        fk = build.fkey(feats); fl = sorted(build.closure(feats))
        jobs.append(Job('%s:n2-all' % fk, mod, 'query_job', {'n': 2, 'fam': ['sym', 'sym'], 'focus': 0, 'features': fl}, engine_key=ek, stop_after_violations=40))
        for i, ct in enumerate(fams3):
            for fi in ([0] if light else [0, 2]):
                fam = ['sym' if s == fi else ct[s] for s in range(3)]
                jobs.append(Job('%s:n3-f%d-seed%d' % (fk, fi, i), mod, 'query_job', {'n': 3, 'fam': fam, 'focus': fi, 'features': fl}, engine_key=ek, stop_after_violations=40))
        if tier == 'thorough' and not light and ek == engine_keys[0]:
            fam = ['sym'] + fam4[1:]
            jobs.append(Job('%s:n4-f0' % fk, mod, 'query_job', {'n': 4, 'fam': fam, 'focus': 0, 'features': fl}, engine_key=ek, stop_after_violations=40))
        if not light:
            # four variables, branches over interleaved variable sets (supports that are not intervals of each other)
            jobs.append(Job('%s:n4-split' % fk, mod, 'query_job', {'n': 4, 'fam': ['split', [0] * 16, [1] * 16, [0, 1] * 8], 'focus': 0, 'features': fl}, engine_key=ek, stop_after_violations=40))
        jobs.append(Job('%s:counts-kernel' % fk, mod, 'counts_kernel_job', {}, engine_key=ek))
    if canary:
        jobs.append(Job('canary', mod, 'query_job', {'n': 2, 'fam': ['sym', 'sym'], 'focus': 0, 'features': sorted(build.closure(feature_sets[0])), 'canary': True},
                        engine_key=engine_keys[0], stop_after_violations=1, canary=True))
    return jobs
