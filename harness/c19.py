"""C19 - streaming mirror reproduces the producer's node table under every schedule (DESIGN.md section 5/C19)

The producer never reads receiver state and the channel is an unbounded FIFO, so every interleaving of receiver polls with
individual node creations is equivalent to a poll that sees a prefix of the final message sequence.  The producer's script is
therefore run first; each poll then sees messages up to a symbolic, non-decreasing cut (solver variable), requests a symbolic
handle, and is issued by the relay or the last store (explored exhaustively)."""
import json, random
import z3
from mirse.engine import *
from mirse.hlib import *
from mirse.runner import Job
from mirse.models_chan import SenderObj, ReceiverObj
from .bddprops import ASSUMPTIONS, random_script
from .bddscript import Store


def node_tuples(e, bdd):
    return [(nd.f[0].f[0], nd.f[1].f[0], nd.f[2].f[0]) for nd in bdd_nodes(e, bdd)]


def setup(e, n, cap=None):
    ch1 = e.call_model('crossbeam_channel::bounded', [cap]) if cap else e.call_model('crossbeam_channel::unbounded', [])
    ch2 = e.call_model('crossbeam_channel::unbounded', [])
    prod = e.call('obdd::Bdd::with_sender', [ch1.f[0]])
    relay = e.call('obdd::Bdd::with_sender_receiver', [ch2.f[0], ch1.f[1]])
    last = e.call('obdd::Bdd::with_receiver', [ch2.f[1]])
    return prod, relay, last, ch1.f[1].ch, ch2.f[1].ch


def run_producer(e, prod, script, n):
    st = Store(e, n, check=False)
    st.bdd = prod; st.r = Ref([prod], 0)
    for s in script: st.step(dict(s))
    return st


def mirror_job(e, p):
    n = p['n']; P = p['polls']; canary = p.get('canary')
    prod, relay, last, c1, c2 = setup(e, n)
    script = []
    for k, s in enumerate(p['script']):
        s = dict(s)
        if s.get('bits') == 'sym': s['bits'] = tt_bits('s%d' % k, n)
        script.append(s)
    st = run_producer(e, prod, script, n)
    pn = node_tuples(e, prod)
    K = len(c1.q)
    sched = []
    def conc(m):
        return {'n': n, 'script': st.concrete_script(m)['steps'], 'polls': [{'who': w, 'term': str(mint(m, t)), 'cut': mint(m, c)} for w, t, c in sched]}
    def on_panic(e_, msg):
        m = sat_model(e_, True)
        if m is not None: report(e_, 'panic', what='recv panics: %s' % msg[:200], case=conc(m))
    e.hooks['on_panic'] = on_panic
    if len(pn) != K + 2:
        m = sat_model(e, True); report(e, 'lost-send', what='producer created %d nodes but sent %d messages' % (len(pn) - 2, K), case=conc(m))
    cur = {'cut': None}
    def cutfn(e_, ch):
        if ch is c1: return z3.ULT(z3.BitVecVal(ch.head, 64), cur['cut'])     # relay sees the producer's messages up to the cut
        return True                                                            # relay -> last: see module docstring
    e.hooks['chan_cut'] = cutfn
    prev = z3.BitVecVal(0, 64)
    stores = {'relay': (relay, c1), 'last': (last, c2)}
    # optionally the downstream store goes away (with its receiver) before a poll chosen by the solver; the relay must keep mirroring the producer
    drop_at = e.choose(P + 1, 'drop') if p.get('drop_last') else None
    gone = False
    for k in range(P):
        if drop_at == k:
            c2.receivers = 0; gone = True; sched.append(('drop_last', z3.BitVecVal(0, 64), prev))
        who = 'relay' if gone else ['relay', 'last'][e.choose(2, 'who')]
        cut = z3.BitVec('cut%d' % k, 64); e.assume(z3.ULE(prev, cut)); e.assume(z3.ULE(cut, K)); prev = cut
        cur['cut'] = cut
        term = z3.BitVec('term%d' % k, 64)
        sched.append((who, term, cut))
        bdd, ch = stores[who]
        ret = e.call('obdd::Bdd::recv', [Ref([bdd], 0), T(term)])
        check_state(e, 'poll %d by %s' % (k, who), relay, last, c1, c2, pn, conc, canary, gone)
        ln = len(bdd_nodes(e, bdd))
        m = sat_model(e, differs(ret if isinstance(ret, bool) else zb(ret), z3.ULT(term, ln)))
        if m is not None:
            report(e, 'wrong-found', what='recv(%d) by %s answered %s with %d nodes present afterwards' % (mint(m, term), who, mbool(m, zb(ret)), ln), case=conc(m))
    # producer done, everything visible: drain relay, then last
    cur['cut'] = z3.BitVecVal(K, 64)
    if drop_at == P:
        c2.receivers = 0; gone = True; sched.append(('drop_last', z3.BitVecVal(0, 64), prev))
    live = ('relay',) if gone else ('relay', 'last')
    for who in live:
        bdd, ch = stores[who]
        e.call('obdd::Bdd::recv', [Ref([bdd], 0), T((1 << 64) - 1)])
    sched.append(('drain', z3.BitVecVal(0, 64), z3.BitVecVal(K, 64)))
    for who in live:
        if not same_nodes(node_tuples(e, stores[who][0]), pn):
            m = sat_model(e, True)
            report(e, 'final-mismatch', what='after draining, the node table of %s differs from the producer\'s' % who, case=conc(m))
    return {'producer_nodes': len(pn), 'polls': [w for w, _, _ in sched], 'relay_consumed': c1.head, 'last_consumed': c2.head}


def bounded_job(e, p):
    """the public API accepts any Sender: with a bounded channel a blocking send waits for the consumer.  Schedule explored here: the
    relay runs (drains what is visible) exactly when the producer would block; the last store polls at the end."""
    n = p['n']; cap = p['cap']
    prod, relay, last, c1, c2 = setup(e, n, cap)
    script = []
    for k, s in enumerate(p['script']):
        s = dict(s)
        if s.get('bits') == 'sym': s['bits'] = tt_bits('s%d' % k, n)
        script.append(s)
    box = {}
    def conc(m):
        return {'n': n, 'script': box['st'].concrete_script(m)['steps'] if 'st' in box else [], 'cap': cap, 'polls': []}
    def on_panic(e_, msg):
        m = sat_model(e_, True)
        if m is not None: report(e_, 'panic', what='bounded-channel run panics: %s' % msg[:200], case=conc(m))
    def on_bound(e_, msg):
        m = sat_model(e_, True)
        if m is not None: report(e_, 'producer-blocks', what='producer blocks forever although the consumer keeps polling: %s' % msg[:160], case=conc(m))
    e.hooks['on_panic'] = on_panic; e.hooks['on_bound'] = on_bound
    def consumer(e_, ch):
        e_.call('obdd::Bdd::recv', [Ref([relay], 0), T((1 << 64) - 1)])
    e.hooks['chan_full'] = consumer
    st = Store(e, n, check=False); st.bdd = prod; st.r = Ref([prod], 0); box['st'] = st
    for s in script: st.step(dict(s))
    for who in (relay, last): e.call('obdd::Bdd::recv', [Ref([who], 0), T((1 << 64) - 1)])
    pn = node_tuples(e, prod)
    for name, who in (('relay', relay), ('last', last)):
        if not same_nodes(node_tuples(e, who), pn):
            m = sat_model(e, True)
            report(e, 'final-mismatch', what='bounded channel (capacity %d): after draining, %s holds %d nodes, the producer %d' % (cap, name, len(bdd_nodes(e, who)), len(pn)), case=conc(m))
    return {'producer_nodes': len(pn), 'cap': cap, 'relay_consumed': c1.head}


def same_nodes(a, b):
    if len(a) != len(b): return False
    for x, y in zip(a, b):
        for p, q in zip(x, y):
            if is_sym(p) or is_sym(q):
                if not (is_sym(p) and is_sym(q) and p.eq(q)): return False
            elif p != q: return False
    return True


def check_state(e, where, relay, last, c1, c2, pn, conc, canary, gone=False):
    for name, bdd, ch in ((('relay', relay, c1),) if gone else (('relay', relay, c1), ('last', last, c2))):
        got = node_tuples(e, bdd)
        want = pn[:2 + ch.head + (1 if canary else 0)]
        if not same_nodes(got, want):
            m = sat_model(e, True)
            report(e, 'prefix-mismatch', what='%s: %s holds %d nodes after consuming %d messages; they are not the producer\'s first %d nodes' % (where, name, len(got), ch.head, 2 + ch.head), case=conc(m))

# ------------------------------------------------------------------ native side

def py_judge(case, out):
    if 'polls' not in out: return ['native run failed: %s' % str(out)[:200]]
    probs = []
    pn = out['producer']
    real = [pl for pl in case['polls'] if pl['who'] in ('relay', 'last')]
    for i, (pl, o) in enumerate(zip(real, out['polls'])):
        for who in ('relay', 'last'):
            if o[who] is None: continue          # the downstream store was dropped
            k = o[who + '_consumed']
            if o[who] != pn[:2 + k]: probs.append('poll %d: %s is not the producer prefix of length %d' % (i, who, 2 + k))
        if pl['who'] in ('relay', 'last'):
            present = int(pl['term']) < len(o[pl['who']])
            if o['ret'] != present: probs.append('poll %d: recv(%s) by %s answered %s, present afterwards: %s' % (i, pl['term'], pl['who'], o['ret'], present))
    if out['final_relay'] != pn or (out['final_last'] is not None and out['final_last'] != pn): probs.append('after draining the tables differ from the producer')
    return probs

def native_cmd(case): return dict(case, cmd='mirror_bounded' if case.get('cap') else 'mirror')
def replay(ctx, v):
    out = ctx.native().call(native_cmd(v['case']))
    probs = py_judge(v['case'], out)
    return ('reproduced', {'native_output': out, 'problems': probs[:5]}) if probs else ('not-reproduced', {'native_output': out})
def key(v): return '%s:%s' % (v['kind'], json.dumps(v['case'], sort_keys=True))


def run_concrete(eng, case):
    n = case['n']
    eng.reset_path([]); eng.path_violations = []
    prod, relay, last, c1, c2 = setup(eng, n)
    run_producer(eng, prod, case['script'], n)
    cur = {'cut': 0}
    eng.hooks['chan_cut'] = lambda e_, ch: (ch.head < cur['cut']) if ch is c1 else True
    out = []
    stores = {'relay': relay, 'last': last}
    gone = False
    for pl in case['polls']:
        if pl['who'] == 'drop_last':
            c2.receivers = 0; gone = True; continue
        if pl['who'] == 'drain':
            cur['cut'] = len(c1.q)
            for who in (('relay',) if gone else ('relay', 'last')): eng.call('obdd::Bdd::recv', [Ref([stores[who]], 0), T((1 << 64) - 1)])
            continue
        cur['cut'] = pl['cut']
        ret = eng.call('obdd::Bdd::recv', [Ref([stores[pl['who']]], 0), T(int(pl['term']))])
        out.append({'ret': ret, 'relay': len(bdd_nodes(eng, relay)), 'last': None if gone else len(bdd_nodes(eng, last))})
    fin = [[[str(a), b, c] for a, b, c in node_tuples(eng, x)] for x in (prod, relay, last)]
    if gone: fin[2] = None
    return out, fin


def validate(ctx, tier, seed):
    rng = random.Random(seed * 5 + 3)
    eng = ctx.engines[ctx.engine()]; nat = ctx.native()
    mism = []; cnt = 0
    for i in range(15 if tier == 'quick' else 60):
        n = rng.choice([2, 3])
        script = [s for s in random_script(rng, n, rng.randint(1, 5)) if 'reimport' not in s['op']]
        # re-index operands after dropping reimport steps
        for k, s in enumerate(script):
            for key_ in ('a', 'b'):
                if key_ in s: s[key_] = min(s[key_], k - 1) if k > 0 else 0
        polls = []; cut = 0
        npl = rng.randint(1, 4); drop = rng.randint(0, npl) if i % 3 == 2 else None
        for j in range(npl):
            if drop == j: polls.append({'who': 'drop_last', 'term': '0', 'cut': cut})
            cut = rng.randint(cut, 12)
            polls.append({'who': 'relay' if drop is not None and j >= drop else rng.choice(['relay', 'last']), 'term': str(rng.choice([0, 1, 2, 3, 4, 5, 7, 9, 2**64 - 1])), 'cut': cut})
        if drop == npl: polls.append({'who': 'drop_last', 'term': '0', 'cut': cut})
        polls.append({'who': 'drain', 'term': '0', 'cut': 0})
        case = {'n': n, 'script': script, 'polls': polls}
        out = nat.call(native_cmd(case))
        try:
            mine, fin = run_concrete(eng, case)
        except Exception as ex:
            mism.append('mirse failed on %s: %r' % (json.dumps(case), ex)); continue
        if 'polls' not in out: mism.append('native failed on %s: %s' % (json.dumps(case), out)); continue
        nat_polls = [{'ret': o['ret'], 'relay': len(o['relay']), 'last': None if o['last'] is None else len(o['last'])} for o in out['polls'][:len(mine)]]
        if nat_polls != mine or fin != [out['producer'], out['final_relay'], out['final_last']]:
            mism.append('%s: native %s / mirse %s' % (json.dumps(case), nat_polls, mine))
        if py_judge(case, out): ctx.notes.append('validation schedule violates the property natively: %s' % json.dumps(case))
        cnt += 1
    return cnt, mism


def spec(ctx, tier, seed):
    ctx.engine()
    rng = random.Random(seed * 3 + 1)
    S = {'op': 'shannon', 'bits': 'sym'}
    jobs = []; mod = 'harness.c19'
    if tier == 'quick':
        jobs.append(Job('sym-n2-xor-var', mod, 'mirror_job', {'n': 2, 'script': [S, {'op': 'variable', 'var': 1}, {'op': 'xor', 'a': 0, 'b': 1}], 'polls': 2}, stop_after_violations=40))
    else:
        jobs.append(Job('sym-n2-and', mod, 'mirror_job', {'n': 2, 'script': [S, S, {'op': 'and', 'a': 0, 'b': 1}], 'polls': 3}, stop_after_violations=40))
    for i in range(4 if tier == "quick" else 8):
        n = 3
        sc = [s for s in random_script(rng, n, rng.randint(2, 4)) if 'reimport' not in s['op']][:5]
        for k, s in enumerate(sc):
            for key_ in ('a', 'b'):
                if key_ in s: s[key_] = min(s[key_], k - 1) if k > 0 else 0
        # the number of schedules grows with (messages+2)^polls: long producer scripts get one poll less in the quick tier
        npolls = (3 if len(sc) <= 4 else 2) if tier == 'quick' else (4 if len(sc) <= 3 else 3)
        jobs.append(Job('seeded-n3-%d' % i, mod, 'mirror_job', {'n': n, 'script': sc, 'polls': npolls}, stop_after_violations=40))
        if i % 2 == 1:      # the same producer with the downstream store going away at a point chosen by the solver
            jobs.append(Job('seeded-n3-%d-drop' % i, mod, 'mirror_job', {'n': n, 'script': sc, 'polls': max(2, npolls - 1), 'drop_last': True}, stop_after_violations=40))
    # statements / variables are plain machine words: the two largest indices double as terminal markers inside the node table
    jobs.append(Job('extreme-var-indices', mod, 'mirror_job', {'n': 2, 'script': [S, {'op': 'variable', 'var': (1 << 64) - 2}, {'op': 'variable', 'var': 1}, {'op': 'variable', 'var': (1 << 64) - 1},
                                                                                   {'op': 'not', 'a': 0}], 'polls': 2}, stop_after_violations=40))
    jobs.append(Job('sym-n2-drop-downstream', mod, 'mirror_job', {'n': 2, 'script': [S, {'op': 'not', 'a': 0}, {'op': 'variable', 'var': 1}], 'polls': 2, 'drop_last': True}, stop_after_violations=40))
    jobs.append(Job('bounded-cap2-sym', mod, 'bounded_job', {'n': 2, 'script': [S, S, {'op': 'xor', 'a': 0, 'b': 1}], 'cap': 2}, stop_after_violations=40))
    jobs.append(Job('bounded-cap1-sym', mod, 'bounded_job', {'n': 2, 'script': [S, {'op': 'not', 'a': 0}], 'cap': 1}, stop_after_violations=40))
    jobs.append(Job('canary', mod, 'mirror_job', {'n': 2, 'script': [S, {'op': 'not', 'a': 0}], 'polls': 1, 'canary': True}, stop_after_violations=1, canary=True))
    return {'jobs': jobs, 'level': 'model_checking', 'allowed_status': ('ok', 'panic'),
            'assumptions': ASSUMPTIONS + ['crossbeam unbounded channel is FIFO, lossless and non-duplicating; real threads are replaced by the prefix-visibility argument (module docstring)',
                                          'the producer does not observe its receivers'],
            'bounds': 'producer scripts: one symbolic (quick: a 2-variable function xor a variable; thorough: two 2-variable functions and a conjunction) and seeded 3-variable scripts of 2-4 operations; relay chain of length 2; '
                      'up to %d polls (thorough: %d for producer scripts of at most three operations, else 3), each by relay or last (both explored), each with a symbolic non-decreasing visibility cut in [0,K] and an unconstrained symbolic 64-bit requested handle; '
                      'final drain of both hops; the same with the downstream store (and its receiver) dropped before a poll chosen by the solver, the relay continuing alone. Bounded channels (capacity 1 and 2): the relay is scheduled exactly when the producer would block' % (3, 4),
            'outside': 'more polls; chains longer than 2; a visibility cut inside the relay-to-last hop is subsumed by a later poll (argued, not executed); OS-level thread scheduling itself'}
