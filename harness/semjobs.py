"""Symbolic harness for the ADF semantics procedures (C01-C05): one job = one procedure on one ADF family."""
import os, json, random, itertools
import z3
from mirse.engine import *
from mirse.hlib import *
from mirse.models_chan import SenderObj, ReceiverObj, Hang
from . import adflib as A

ITER_PROCS = {
    'complete': 'adf::Adf::complete', 'stable': 'adf::Adf::stable', 'stable_with_prefilter': 'adf::Adf::stable_with_prefilter',
    'heu_a': 'adf::Adf::stable_count_optimisation_heu_a', 'heu_b': 'adf::Adf::stable_count_optimisation_heu_b',
}
HEURISTICS = ['Simple', 'MinModMinPathsMaxVarImp', 'MinModMaxVarImpMinPaths', 'Rand', 'Custom']


def split_backend(proc):
    """'bio/stable' -> ('bio', 'stable'): the procedure of the biodivine-based Adf; 'hyb/...' : hybrid_step() first, then the naive procedure;
    'hybraw/...': hybrid_step_opt(false); 'hybrew/...': hybrid_step() of an object that carries the stable rewriting.  Without prefix: the naive Adf built directly."""
    if '/' in proc:
        b, q = proc.split('/', 1); return b, q
    return 'naive', proc


def oracle_kind(proc):
    proc = split_backend(proc)[1]
    if proc == 'grounded': return 'grounded'
    if proc == 'complete': return 'complete'
    if proc.startswith('twoval'): return 'models'
    return 'stable'


def custom_heuristic(e, args):
    """any heuristic satisfying the documented contract: proposes some undecided statement with some truth value"""
    interp = args[1]
    und = []
    for i, t in enumerate(interp.aslist()):
        h = tv(t)
        if is_sym(h): h = e.concretize(h)
        if h > 1: und.append(i)
    if not und: return NONE()
    lim = e.hooks.get('max_custom_calls')
    log = e.hooks.setdefault('custom_choices', [])
    if lim is not None and len(log) >= lim: raise BoundExceeded('custom heuristic calls')
    i = und[e.choose(len(und), 'custom-var')]
    b = e.choose(2, 'custom-val')
    log.append([i, bool(b)])
    return Some(Struct([T(i), T(1 if b else 0)]))


def heuristic_value(e, name):
    if name == 'Custom':
        return Enum('Custom', [Ref([custom_heuristic], 0)], 'Heuristic')
    return Enum(name, [], 'Heuristic')


def run_proc(e, proc, ra, adf):
    """call the procedure through its MIR; returns list of Vec<Term> (or one Vec for grounded) + side facts"""
    side = {}
    if proc == 'grounded':
        return [e.call('adf::Adf::grounded', [ra])], side
    if proc in ITER_PROCS:
        return A.drain(e, e.call(ITER_PROCS[proc], [ra])), side
    kind, heu = proc.split(':')
    hv = heuristic_value(e, heu)
    if kind == 'nogood':
        return A.drain(e, e.call('adf::Adf::stable_nogood', [ra, hv])), side
    pair = e.call_model('crossbeam_channel::unbounded', [])
    snd, rcv = pair.f
    keep = snd.clone(e)            # the caller keeps its own clone: exactly one sender must be dropped by the callee
    fn = 'adf::Adf::stable_nogood_channel' if kind == 'nogood_channel' else 'adf::Adf::two_val_nogood_channel'
    e.call(fn, [ra, hv, snd])
    side['senders_after'] = rcv.ch.senders
    keep.on_drop(e)
    out = []
    while rcv.ch.head < len(rcv.ch.q):
        out.append(rcv.ch.q[rcv.ch.head]); rcv.ch.head += 1
    if rcv.ch.senders != 0: side['consumer_would_block'] = True
    return out, side


def make_bio_adf(e, tabs, n):
    """adfbiodivine::Adf whose conditions are the (symbolic) truth tables, as values of the biodivine contract model (mirse/models_bio.py).
    The struct is assembled directly (from_parser needs a concrete text; it is exercised by the concrete differential runs and C09/C10)."""
    from mirse import models_bio as B
    names = ['s%d' % i for i in range(n)]
    nm = CellObj(CellObj(VecObj([StrBuf(x) for x in names]), 'rwlock'), 'arc')
    mp = MapObj(); mp.e = [[StrBuf(x), [i]] for i, x in enumerate(names)]
    vals = {'ordering': Struct([nm, CellObj(CellObj(mp, 'rwlock'), 'arc')]),
            'ac': VecObj([B.BioBdd(n, [x if is_sym(x) else bool(x) for x in t]) for t in tabs]),
            'vars': VecObj([Struct([i]) for i in range(n)]), 'varset': B.BioVarSet(names), 'rewrite': NONE()}
    order = e.structs_q[('lib/src/adfbiodivine.rs', 'Adf')]
    bio = Struct([vals[f] if f in vals else e.default_field('lib/src/adfbiodivine.rs', 'Adf', f) for f in order])
    return bio, Ref([bio], 0)


def run_backend(e, proc, tabs, n):
    """-> (results, side facts, naive bdd or None)"""
    backend, inner = split_backend(proc)
    bio, rb = make_bio_adf(e, tabs, n)
    if backend == 'bio':
        if inner == 'grounded': return [e.call('adfbiodivine::Adf::grounded', [rb])], {}, None
        if inner in ('complete', 'stable'): return A.drain(e, e.call('adfbiodivine::Adf::%s' % inner, [rb])), {}, None
        if inner == 'stable_rew': return list(e.call('adfbiodivine::Adf::stable_bdd_representation', [rb]).items), {}, None
        raise Unsupported('biodivine back-end procedure ' + inner)
    if backend == 'hybrew':
        # the object the CLI builds for --stmrew: the stable rewriting is present before the bridge is taken.  from_parser_with_stm_rewrite needs a
        # text; the same diagram (conjunction of statement <-> condition) is computed by the crate's own stable_representation() and stored
        order = e.structs_q[('lib/src/adfbiodivine.rs', 'Adf')]
        bio.f[order.index('rewrite')] = Some(e.call('adfbiodivine::Adf::stable_representation', [rb]))
    adf = e.call('adfbiodivine::Adf::hybrid_step', [rb]) if backend in ('hyb', 'hybrew') else e.call('adfbiodivine::Adf::hybrid_step_opt', [rb, False])
    ra = Ref([adf], 0); bdd = adf.f[e.field('Adf', 'bdd')]
    if inner == 'stable_rew2': return list(e.call('adf::Adf::stable_bdd_representation', [ra, rb]).items), {}, bdd
    res, side = run_proc(e, inner, ra, adf)
    return res, side, bdd


def concrete_case(m, tabs, p):
    c = {'n': p['n'], 'tabs': tables_from_model(m, [[zb(b) for b in t] for t in tabs]), 'proc': p['proc']}
    if p.get('features'): c['features'] = p['features']
    return c


def answer_mismatch(e, fam, tabs, n, proc, got, canary=False):
    """decide by z3, under the path condition, whether the answer `got` (list of T/F/u strings) of a semantics procedure equals the definition.
    -> None or (model, oracle kind, expected answer under that model)"""
    kind = oracle_kind(proc)
    if kind == 'grounded':
        g = got[0]
        spec = A.oracle_lfp(fam, tabs, n)
        conds = []
        for s in range(n):
            wt, wf = spec[s]
            if canary: wt = z3.Not(wt)
            conds.append(z3.Not(wt) if g[s] == 'T' else wt)
            conds.append(z3.Not(wf) if g[s] == 'F' else wf)
        m = sat_model(e, z3.Or(*conds))
        if m is None: return None
        return m, kind, [''.join('T' if mbool(m, spec[s][0]) else 'F' if mbool(m, spec[s][1]) else 'u' for s in range(n))]
    if kind == 'complete': cands = [''.join(v) for v in itertools.product('TFu', repeat=n)]
    else: cands = [''.join(v) for v in itertools.product('TF', repeat=n)]
    phis = A.oracle_set(kind, fam, tabs, n, cands)
    if canary: phis = {v: z3.Not(f) for v, f in phis.items()}
    gotset = set(got)
    probs = []
    if len(gotset) != len(got): probs.append('duplicates')
    if any(v not in phis for v in got): probs.append('not-a-candidate')
    conds = [z3.Not(phis[v]) if v in gotset else phis[v] for v in cands]
    if kind == 'complete':
        spec = A.oracle_lfp(fam, tabs, n)
        if got:
            g = got[0]
            for s in range(n):
                conds.append(z3.Not(spec[s][0]) if g[s] == 'T' else spec[s][0])
                conds.append(z3.Not(spec[s][1]) if g[s] == 'F' else spec[s][1])
        else: probs.append('empty')
    m = sat_model(e, True) if probs else sat_model(e, z3.Or(*conds))
    if m is None: return None
    return m, kind, [v for v in cands if mbool(m, phis[v])] + probs


def sem_job(e, p):
    n = p['n']; proc = p['proc']; canary = p.get('canary')
    tabs = A.family_tabs(n, p['fam'])
    if p.get('max_draws') is not None: e.hooks['max_draws'] = p['max_draws']
    if p.get('max_custom_calls') is not None: e.hooks['max_custom_calls'] = p['max_custom_calls']
    def extra(m):
        d = {}
        if e.hooks.get('custom_choices'): d['custom_choices'] = list(e.hooks['custom_choices'])
        return d
    def on_panic(e_, msg):
        m = sat_model(e_, True)
        if m is not None: report(e_, 'panic', what='%s panics: %s' % (proc, msg[:200]), case=concrete_case(m, tabs, p), **extra(m))
    def on_bound(e_, msg):
        m = sat_model(e_, True)
        if m is not None: report(e_, 'non-termination', what='%s exceeds every bound (%s)' % (proc, msg[:200]), case=concrete_case(m, tabs, p), **extra(m))
    e.hooks['on_panic'] = on_panic; e.hooks['on_bound'] = on_bound
    if split_backend(proc)[0] == 'naive':
        adf, ra, bdd = A.make_adf(e, tabs, n)
        res, side = run_proc(e, proc, ra, adf)
    else:
        res, side, bdd = run_backend(e, proc, tabs, n)
    got = [A.classes(e, v) for v in res]
    wrong = answer_mismatch(e, p['fam'], tabs, n, proc, got, canary)
    if wrong is not None:
        m, kind_, exp = wrong
        report(e, 'wrong-' + kind_, what='%s returned %s, definition gives %s' % (proc, got, exp), case=concrete_case(m, tabs, p), expected=exp, observed=got, **extra(m))
    if side.get('consumer_would_block') or ('senders_after' in side and side['senders_after'] != 1):
        m = sat_model(e, True)
        report(e, 'sender-not-dropped', what='%s returned without dropping the sender it was given' % proc, case=concrete_case(m, tabs, p), **extra(m))
    return {'proc': proc, 'result': got, 'nodes': len(bdd_nodes(e, bdd)) if bdd is not None else None, 'choices': e.hooks.get('custom_choices'), 'draws': e.hooks.get('draws', 0)}

# ------------------------------------------------------------------ job lists

def families(n, nsym, rng, count, must=None):
    """F(n, S, seed): |S| = nsym statements symbolic, the others concrete (drawn from the seed)"""
    fams = []
    if must: fams.extend(must)
    for _ in range(count):
        S = set(rng.sample(range(n), nsym))
        ct = A.rand_tabs(rng, n)
        fams.append(['sym' if s in S else ct[s] for s in range(n)])
    return fams


SAV = 40      # a job that has produced this many counterexamples stops exploring (they are all replayed and reported)

def make_jobs(Job, procs, tier, seed, canary_proc, quick_n3=5, thorough_n3_1=12, thorough_n3_2=1, must3=None, extra_params=None, n2=True):
    rng = random.Random(seed * 1000003 + 17)
    jobs = []; mod = 'harness.semjobs'
    xp = extra_params or {}
    fams3_1 = families(3, 1, rng, quick_n3 if tier == 'quick' else thorough_n3_1, must=must3)
    fams3_2 = families(3, 2, rng, 0 if tier == 'quick' else thorough_n3_2)
    if os.environ.get('VERIF_FAM'):      # developer: one more family, e.g. VERIF_FAM='["sym",[0,1,1,0,0,1,1,0],"sym"]'
        f = json.loads(os.environ['VERIF_FAM']); (fams3_1 if sum(1 for x in f if x == 'sym') <= 1 else fams3_2).append(f)
    fams4_1 = families(4, 1, rng, 0 if tier == 'quick' else 1)
    for proc in procs:
        pp = dict(xp.get(proc, {}))
        # the ADF without statements (Adf::default()): one interpretation, the empty one
        jobs.append(Job('n0-%s' % proc, mod, 'sem_job', dict({'n': 0, 'fam': [], 'proc': proc}, **pp), stop_after_violations=SAV, max_steps=200000))
        if n2: jobs.append(Job('n2-all-%s' % proc, mod, 'sem_job', dict({'n': 2, 'fam': ['sym', 'sym'], 'proc': proc}, **pp), stop_after_violations=SAV))
        if pp.get('branching'):
            # heuristics that fork the search itself (every random draw / every custom choice): concrete 3-statement ADFs from the seed
            # in the quick tier, one symbolic family in the thorough tier
            for i in range(pp['branching']):
                ct = A.rand_tabs(rng, 3)
                jobs.append(Job('n3-concrete-%d-%s' % (i, proc), mod, 'sem_job', dict({'n': 3, 'fam': ct, 'proc': proc}, **pp), stop_after_violations=SAV))
            if tier == 'thorough' and fams3_1:
                jobs.append(Job('n3-1sym-0-%s' % proc, mod, 'sem_job', dict({'n': 3, 'fam': fams3_1[0], 'proc': proc}, **pp), stop_after_violations=SAV))
            continue
        for i, f in enumerate(fams3_1):
            jobs.append(Job('n3-1sym-%d-%s' % (i, proc), mod, 'sem_job', dict({'n': 3, 'fam': f, 'proc': proc}, **pp), stop_after_violations=SAV))
        # the two large families (65 536 ADFs each) are explored for the first procedure of the property only (stated in the bounds)
        deep = proc == procs[0] or pp.get('deep')
        for i, f in enumerate(fams3_2 if deep else []):
            jobs.append(Job('n3-2sym-%d-%s' % (i, proc), mod, 'sem_job', dict({'n': 3, 'fam': f, 'proc': proc}, **pp), stop_after_violations=SAV))
        for i, f in enumerate(fams4_1 if deep else []):
            if pp.get('skip_n4') or oracle_kind(proc) == 'complete': continue      # 3^4 candidates x 65 536 functions: left out (stated in the bounds)
            jobs.append(Job('n4-1sym-%d-%s' % (i, proc), mod, 'sem_job', dict({'n': 4, 'fam': f, 'proc': proc}, **pp), stop_after_violations=SAV))
    jobs.append(Job('canary-%s' % canary_proc, mod, 'sem_job', {'n': 2, 'fam': ['sym', 'sym'], 'proc': canary_proc, 'canary': True},
                    stop_after_violations=1, canary=True))
    return jobs

# ------------------------------------------------------------------ native side: validation and replay

def py_oracle(kind, tabs, n):
    if kind == 'grounded': return [A.py_grounded(tabs, n)]
    if kind == 'complete': return A.py_complete(tabs, n)
    if kind == 'models': return A.py_models(tabs, n)
    return A.py_stable(tabs, n)


def native_cmd(case, extra=None):
    c = {'cmd': 'adf_sem', 'n': case['n'], 'tabs': case['tabs'], 'proc': case['proc']}
    if extra: c.update(extra)
    return c


def judge_native(out, case):
    """property judged on a native run"""
    n = case['n']; kind = oracle_kind(case['proc'])
    if out.get('timeout'): return ['native run does not terminate within the cap']
    if 'panic' in out or 'crash' in out: return ['native run panics: %s' % str(out)[:200]]
    if 'result' not in out: return ['native run failed: %s' % str(out)[:200]]
    got = out['result']
    exp = py_oracle(kind, case['tabs'], n)
    probs = []
    if kind == 'grounded':
        if got != exp: probs.append('grounded %s, least fixpoint %s' % (got, exp))
        return probs
    if sorted(got) != sorted(exp): probs.append('returned %s, definition %s' % (got, exp))
    if kind == 'complete' and got and got[0] != A.py_grounded(case['tabs'], n): probs.append('first complete model is not the grounded interpretation')
    if out.get('sender_alive'): probs.append('sender not dropped')
    return probs


def replay(ctx, v):
    case = v['case']
    nat = ctx.native(tuple(f for f in case['features'] if f != 'HashSet')) if case.get('features') else ctx.native()
    proc = case['proc']
    if proc.endswith(':Rand'):
        # the model over-approximates StdRng (every draw arbitrary): search seeds for one that reproduces
        for sd in range(24):
            out = nat.call(native_cmd(case, {'seed': sd}), timeout=2)
            probs = judge_native(out, case)
            if probs: return 'reproduced', {'seed': sd, 'native_output': out, 'problems': probs}
        return 'not-reproduced', {'note': 'no seed in 0..23 reproduces'}
    extra = {}
    if v.get('custom_choices') is not None: extra['custom_choices'] = v['custom_choices']
    out = nat.call(native_cmd(case, extra), timeout=8)
    probs = judge_native(out, case)
    if probs: return 'reproduced', {'native_output': out, 'problems': probs}
    return 'not-reproduced', {'native_output': out}


def key(v):
    c = v['case']
    k = '%s:%s:n%d:%s' % (v['kind'], c['proc'], c['n'], json.dumps(c['tabs']))
    if c.get('features'): k += ':' + '+'.join(c['features'])
    return k


def validate(ctx, tier, seed, procs, texts=True):
    """concrete differential runs: the same ADF (truth tables; Shannon construction) natively and in mirse"""
    from mirse.runner import Job
    rng = random.Random(seed * 31 + 5)
    key_ = ctx.engine(); eng = ctx.engines[key_]; nat = ctx.native()
    cases = []
    if texts:
        for txt in repo_test_instances():
            out = nat.call({'cmd': 'adf_tables', 'text': txt})
            if 'tabs' in out and out['n'] <= 5: cases.append((out['n'], out['tabs']))
    for i in range(12 if tier == 'quick' else 40):
        n = rng.choice([2, 3, 3, 4])
        cases.append((n, A.rand_tabs(rng, n)))
    mism = []; cnt = 0
    for n, tabs in cases:
        for proc in procs:
            if proc.endswith(':Rand') or proc.endswith(':Custom'): continue
            case = {'n': n, 'tabs': tabs, 'proc': proc}
            out = nat.call(native_cmd(case, {'raw': True}), timeout=20)
            eng.reset_path([]); eng.path_violations = []
            try:
                if split_backend(proc)[0] != 'naive':
                    # biodivine-based procedures run on the contract model: the answers (T/F/u per statement, in the order listed) must equal the
                    # real library's.  Handles inside a bridged store are not compared: biodivine's node layout depends on how a diagram was
                    # computed (measured: high-branch-first post-order after eval_expression, other orders after restrict), the model's does not.
                    # The rewriting-based procedures list models in the order of biodivine's valuation iterator: compared as multisets.
                    res, side, bdd = run_backend(eng, proc, [[bool(b) for b in t] for t in tabs], n)
                    mine = [A.classes(eng, v) for v in res]; theirs = out.get('result')
                    if split_backend(proc)[1] in ('stable_rew', 'stable_rew2'): mine = sorted(mine); theirs = sorted(theirs or [])
                    if theirs != mine: mism.append('%s on %s: native %s / mirse %s' % (proc, json.dumps(tabs), str(out)[:300], mine))
                    cnt += 1; continue
                adf, ra, bdd = A.make_adf(eng, [[bool(b) for b in t] for t in tabs], n)
                res, side = run_proc(eng, proc, ra, adf)
                mine = [ivec(eng, v) for v in res]
                nodes = [[str(nd.f[0].f[0]), nd.f[1].f[0], nd.f[2].f[0]] for nd in bdd_nodes(eng, bdd)]
            except (RustPanic, BoundExceeded) as ex:
                mine = 'panic'; nodes = None
            except Exception as ex:
                mism.append('mirse failed on %s %s: %r' % (proc, json.dumps(tabs), ex)); continue
            if mine == 'panic':
                if 'panic' not in out and not out.get('timeout'): mism.append('%s on %s: mirse panics/hangs, native does not' % (proc, json.dumps(tabs)))
            elif out.get('raw') != mine or out.get('nodes') != nodes:
                mism.append('%s on %s: native %s / mirse %s' % (proc, json.dumps(tabs), str(out)[:300], str(mine)[:300]))
            cnt += 1
    return cnt, mism


def repo_test_instances():
    """every ADF text literal in the repository's own tests and docs (read from the sources at run time)"""
    import re, glob, os
    from vlib import build
    seen = []
    for p in sorted(glob.glob(os.path.join(build.REPO, 'lib/src/**/*.rs'), recursive=True)) + [os.path.join(build.REPO, 'README.md'), os.path.join(build.REPO, 'lib/README.md')]:
        if not os.path.exists(p): continue
        for m in re.finditer(r'"((?:s|ac)\([^"\\]*(?:\\.[^"\\]*)*)"', open(p).read()):
            t = m.group(1).replace('\\n', '\n').replace('\\"', '"')
            if 'ac(' in t and t not in seen: seen.append(t)
    return seen
