"""C02 - see DESIGN.md section 5"""
from . import semprops, semjobs
spec, validate = semprops.make(['complete'], 'complete')
replay = semjobs.replay
key = semjobs.key
