"""C02 - see DESIGN.md section 5"""
from . import semprops, semjobs
spec, validate = semprops.make(['complete', 'bio/complete', 'hyb/complete', 'hybrew/complete'], 'complete', backend_kinds=('complete',))
replay = semprops.replay
key = semprops.key
