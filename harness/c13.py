"""C13 - counts, depth, supports and path cubes of a diagram are exact (DESIGN.md section 5/C13)"""
from mirse.runner import Job
from vlib import build
from . import queryjobs
from .bddprops import ASSUMPTIONS
replay = queryjobs.replay
key = queryjobs.key
# the memoised counters are only reachable (and documented to work) without ad-hoc counting or with ad-hoc model counting:
# the queries are therefore also decided on MIR dumped without any counting feature and with adhoccountmodels
# the third set is also the one without the variablelist feature: supports are then computed by traversal instead of read from the per-node lists
SETS = [tuple(sorted(build.DEFAULT_FEATURES)), ('frontend', 'variablelist'), ('adhoccounting', 'adhoccountmodels')]
def validate(ctx, tier, seed): return queryjobs.validate_features(ctx, tier, seed, SETS[:2])
def spec(ctx, tier, seed):
    keys = [ctx.engine(s) for s in SETS]
    jobs = queryjobs.make_jobs(Job, tier, seed, SETS[:1], keys[:1]) + queryjobs.make_jobs(Job, tier, seed, SETS[1:], keys[1:], canary=False, light=(tier == 'quick'))
    def extra(ctx_):
        # E2 cross-check (thorough tier): Kani/CBMC proves the same integer kernels at full width on an independently produced encoding
        if tier != 'thorough' or build.REPO != '/repo': return [], {}, []
        import subprocess, re, os
        p = subprocess.run([os.path.join(build.VERIF, 'tools', 'kani.sh')], capture_output=True, text=True)
        ok = len(re.findall(r'VERIFICATION:- SUCCESSFUL', p.stdout)); bad = len(re.findall(r'VERIFICATION:- FAILED', p.stdout))
        inc = [] if (p.returncode == 0 and bad == 0 and ok > 0) else ['Kani cross-check: %d harnesses failed / run incomplete (the kernels are also decided by mirse, whose counterexamples are replayed): %s' % (bad, p.stdout[-400:])]
        return [], {'kani_harnesses_verified': ok, 'kani_harnesses_failed': bad, 'kani_cmd': 'tools/kani.sh (cargo kani, CBMC 6.11, no unwinding involved)'}, inc
    return {'jobs': jobs, 'level': 'model_checking', 'assumptions': ASSUMPTIONS, 'extra': extra,
            'extra_coverage': {'feature_sets': [build.fkey(s) for s in SETS]},
            'allowed_status': ('ok', 'panic'),
            'bounds': 'diagrams from symbolic truth tables: all functions of 2 variables, 3-variable (thorough: 4-variable) families with one symbolic table in seeded '
                      'contexts; all goal values and goal variables 0..n; ModelCounts::minimum/more_models on unconstrained 64-bit counts (full width). Feature sets: default, no counting feature (naive + memoised counters), adhoccountmodels without variablelist; '
                      'memoised model counting is exercised only where documented to work.',
            'outside': 'path cubes of the two constant diagrams (Bdd::interpretations returns no cube for a constant; its callers never pass one); the remaining feature sets are C12'}
