"""C13 - counts, depth, supports and path cubes of a diagram are exact (DESIGN.md section 5/C13)"""
from mirse.runner import Job
from vlib import build
from . import queryjobs
from .bddprops import ASSUMPTIONS
replay = queryjobs.replay
key = queryjobs.key
def validate(ctx, tier, seed): return queryjobs.validate_features(ctx, tier, seed, [build.DEFAULT_FEATURES])
def spec(ctx, tier, seed):
    k = ctx.engine()
    return {'jobs': queryjobs.make_jobs(Job, tier, seed, [build.DEFAULT_FEATURES], [k]), 'level': 'model_checking', 'assumptions': ASSUMPTIONS,
            'allowed_status': ('ok', 'panic'),
            'bounds': 'diagrams from symbolic truth tables: all functions of 2 variables, 3-variable (thorough: 4-variable) families with one symbolic table in seeded '
                      'contexts; all goal values and goal variables 0..n; ModelCounts::minimum/more_models on unconstrained 64-bit counts (full width). Default feature set; '
                      'memoised model counting is exercised only where documented to work.',
            'outside': 'path cubes of the two constant diagrams (Bdd::interpretations returns no cube for a constant; its callers never pass one); other feature sets are C12'}
