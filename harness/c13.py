"""C13 - counts, depth, supports and path cubes of a diagram are exact (DESIGN.md section 5/C13)"""
from mirse.runner import Job
from vlib import build
from . import queryjobs
from .bddprops import ASSUMPTIONS
replay = queryjobs.replay
key = queryjobs.key
# the memoised counters are only reachable (and documented to work) without ad-hoc counting or with ad-hoc model counting:
# the queries are therefore also decided on MIR dumped without any counting feature and with adhoccountmodels
SETS = [tuple(sorted(build.DEFAULT_FEATURES)), ('frontend', 'variablelist'), ('adhoccounting', 'adhoccountmodels', 'variablelist')]
def validate(ctx, tier, seed): return queryjobs.validate_features(ctx, tier, seed, SETS[:2])
def spec(ctx, tier, seed):
    keys = [ctx.engine(s) for s in SETS]
    jobs = queryjobs.make_jobs(Job, tier, seed, SETS[:1], keys[:1]) + queryjobs.make_jobs(Job, tier, seed, SETS[1:], keys[1:], canary=False, light=(tier == 'quick'))
    return {'jobs': jobs, 'level': 'model_checking', 'assumptions': ASSUMPTIONS,
            'extra_coverage': {'feature_sets': [build.fkey(s) for s in SETS]},
            'allowed_status': ('ok', 'panic'),
            'bounds': 'diagrams from symbolic truth tables: all functions of 2 variables, 3-variable (thorough: 4-variable) families with one symbolic table in seeded '
                      'contexts; all goal values and goal variables 0..n; ModelCounts::minimum/more_models on unconstrained 64-bit counts (full width). Feature sets: default, no counting feature (naive + memoised counters), adhoccountmodels; '
                      'memoised model counting is exercised only where documented to work.',
            'outside': 'path cubes of the two constant diagrams (Bdd::interpretations returns no cube for a constant; its callers never pass one); the remaining feature sets are C12'}
