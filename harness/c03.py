"""C03 - see DESIGN.md section 5"""
from . import semprops, semjobs
spec, validate = semprops.make(['stable','stable_with_prefilter'], 'stable', backend_kinds=('stable',))
replay = semprops.replay
key = semprops.key
