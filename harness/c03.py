"""C03 - see DESIGN.md section 5"""
from . import semprops, semjobs
# bio/stable_rew: adfbiodivine::Adf::stable_bdd_representation (internal rewriting); hyb/stable_rew2: adf::Adf::stable_bdd_representation(&bio)
spec, validate = semprops.make(['stable', 'stable_with_prefilter', 'bio/stable', 'bio/stable_rew', 'hyb/stable', 'hyb/stable_with_prefilter', 'hyb/stable_rew2', 'hybraw/stable'],
                               'stable', backend_kinds=('stable',))
replay = semprops.replay
key = semprops.key
