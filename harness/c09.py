"""C09 - compilation to diagrams preserves every acceptance condition (native + bridge + pre-grounded bridge)
Translation validation (DESIGN.md section 3.3 / 5/C09): each compiled program is decided exactly by z3."""
import json, random, time, hashlib
import z3
from vlib import build
from . import adftext as T
from .semjobs import repo_test_instances

MODES = ['native', 'bridge', 'hybrid', 'hybrid_noopt', 'hybrid_after']      # hybrid_after: semantics are computed on the biodivine-based object before the pre-grounded bridge is taken
PROBE_MODES = ['native', 'bridge', 'hybrid', 'hybrid_noopt']
PROBE_TEXT = 's("x(1)").s(b).ac("x(1)",neg(b)).ac(b,"x(1)").'


def diagram_terms(nodes, names, X):
    """z3 term of every node of a dumped node table (shared sub-terms)"""
    memo = {0: z3.BoolVal(False), 1: z3.BoolVal(True)}
    def term(h):
        stack = [h]
        while stack:
            t = stack[-1]
            if t in memo: stack.pop(); continue
            v, lo, hi = nodes[t]
            if lo in memo and hi in memo:
                memo[t] = z3.If(X[names[int(v)]], memo[hi], memo[lo]); stack.pop()
            else:
                if lo not in memo: stack.append(lo)
                if hi not in memo: stack.append(hi)
        return memo[h]
    return term


def z3_grounded(names, acs, X, stats):
    """least fixpoint of the consequence operator by validity queries on the formulas (independent of the code under test)"""
    dec = {}
    s = z3.Solver()
    F = {n: T.to_z3(acs[n], lambda a: X[a]) for n in names}
    changed = True
    while changed:
        changed = False
        sub = [(X[n], z3.BoolVal(v)) for n, v in dec.items()]
        for n in names:
            if n in dec: continue
            f = z3.substitute(F[n], *sub) if sub else F[n]
            stats['queries'] += 2
            if s.check(z3.Not(f)) == z3.unsat: dec[n] = True; changed = True
            elif s.check(f) == z3.unsat: dec[n] = False; changed = True
    return dec


def eval_nodes(nodes, names, h, asg):
    while h > 1:
        v, lo, hi = nodes[h]
        h = hi if asg[names[int(v)]] else lo
    return h == 1


def validate_program(nat, text, names, acs, mode, sort, stats, canary=False):
    """returns list of (statement, distinguishing assignment) disagreements"""
    out = nat.call({'cmd': 'compile', 'text': text, 'mode': mode, 'sort': sort}, timeout=120)
    if 'nodes' not in out: return None, out
    cn = out['names']; nodes = [(int(v), lo, hi) for v, lo, hi in out['nodes']]
    if sorted(cn) != sorted(names): return [('*', 'names differ: %s vs %s' % (cn, names))], out
    X = {n: z3.Bool('x_' + hashlib.md5(n.encode()).hexdigest()[:8] + '_' + str(i)) for i, n in enumerate(names)}
    term = diagram_terms(nodes, cn, X)
    ground = z3_grounded(names, acs, X, stats) if mode in ('hybrid', 'hybrid_rew', 'hybrid_after') else {}
    sub = [(X[n], z3.BoolVal(v)) for n, v in ground.items()]
    s = z3.Solver(); dis = []
    for i, n in enumerate(cn):
        f = T.to_z3(acs[n], lambda a: X[a])
        if sub: f = z3.substitute(f, *sub)
        if canary: f = z3.Not(f)
        d = term(out['ac'][i])
        stats['queries'] += 1; stats['obligations'] += 1
        t0 = time.time(); r = s.check(d != f); stats['solver_s'] += time.time() - t0
        if r == z3.sat:
            m = s.model()
            asg = {k: z3.is_true(m.eval(X[k], model_completion=True)) for k in names}
            dis.append((n, asg))
        elif r != z3.unsat: dis.append((n, 'solver unknown'))
    return dis, out


def confirm(nat, text, names, acs, mode, sort, stmt, asg, stats):
    """replay: compile again natively and evaluate both sides under the distinguishing assignment"""
    out = nat.call({'cmd': 'compile', 'text': text, 'mode': mode, 'sort': sort}, timeout=120)
    if 'nodes' not in out: return True, 'native compile failed: %s' % str(out)[:200]
    cn = out['names']; nodes = [(int(v), lo, hi) for v, lo, hi in out['nodes']]
    if not isinstance(asg, dict): return True, str(asg)
    a = dict(asg)
    if mode in ('hybrid', 'hybrid_rew', 'hybrid_after'):
        X = {n: z3.Bool('g_%d' % i) for i, n in enumerate(names)}
        for k, v in z3_grounded(names, acs, X, stats).items(): a[k] = v
    got = eval_nodes(nodes, cn, out['ac'][cn.index(stmt)], a)
    want = T.evalf(acs[stmt], a)
    return got != want, 'statement %s under %s: diagram %s, formula %s' % (stmt, {k: int(v) for k, v in a.items()}, got, want)


def canonicity_run(ctx, tier, seed):
    """C06 on the bridge conversions: the node table produced by from_biodivine / hybrid_step is reduced, ordered and duplicate-free, and
    two statements hold the same handle iff z3 proves their (substituted) acceptance formulas equivalent"""
    nat = ctx.native(); stats = {'queries': 0, 'obligations': 0, 'solver_s': 0.0}
    confirmed = []; inconclusive = []; nprog = 0; pairs = 0
    progs = programs(tier, seed)[: (110 if tier == 'quick' else 500)]
    s = z3.Solver()
    for pi, (txt, names, acs, origin) in enumerate(progs):
        for mode in ('native', 'bridge', 'hybrid', 'hybrid_noopt'):
            out = nat.call({'cmd': 'compile', 'text': txt, 'mode': mode, 'sort': 'none'}, timeout=120)
            if 'nodes' not in out: inconclusive.append('compile failed: %s' % str(out)[:100]); continue
            nprog += 1
            nodes = [(int(v), lo, hi) for v, lo, hi in out['nodes']]; cn = out['names']
            probs = []
            seen = {}
            for i, (v, lo, hi) in enumerate(nodes):
                if i < 2: continue
                if lo == hi: probs.append('node %d has equal branches' % i)
                if (v, lo, hi) in seen: probs.append('nodes %d and %d are duplicates' % (seen[(v, lo, hi)], i))
                seen[(v, lo, hi)] = i
                for ch in (lo, hi):
                    if ch >= i: probs.append('node %d: child %d not earlier' % (i, ch))
                    elif ch > 1 and nodes[ch][0] <= v: probs.append('node %d: child %d does not test a later variable' % (i, ch))
            X = {n: z3.Bool('c_%d' % k) for k, n in enumerate(names)}
            ground = z3_grounded(names, acs, X, stats) if mode == 'hybrid' else {}
            sub = [(X[n], z3.BoolVal(v)) for n, v in ground.items()]
            F = []
            for n in cn:
                f = T.to_z3(acs[n], lambda a: X[a])
                F.append(z3.substitute(f, *sub) if sub else f)
            lim = min(len(cn), 16)
            for i in range(lim):
                for j in range(i):
                    pairs += 1; stats['queries'] += 1
                    equiv = s.check(F[i] != F[j]) == z3.unsat
                    if equiv != (out['ac'][i] == out['ac'][j]):
                        probs.append('statements %s and %s: handles %d,%d but their conditions are %s' % (cn[j], cn[i], out['ac'][j], out['ac'][i], 'equivalent' if equiv else 'different'))
            if probs:
                confirmed.append(('canon:%s:%s' % (mode, hashlib.sha1(txt.encode()).hexdigest()[:12]),
                                  {'kind': 'non-canonical-import', 'what': '%s compilation: %s' % (mode, '; '.join(probs[:3])), 'text': txt, 'mode': mode, 'sort': 'none', 'canon': True}, out))
    cov = {'bridge_programs': nprog, 'bridge_handle_pairs_decided_by_z3': pairs, 'bridge_note': 'node tables of native / bridge / pre-grounded bridge compilations of seeded texts: structural invariants on the dumped table, handle equality vs z3 equivalence of the formulas'}
    return confirmed, cov, inconclusive


def programs(tier, seed):
    rng = random.Random(seed * 7 + 2)
    progs = []
    for txt in repo_test_instances():
        try:
            names, acs, _ = T.parse(txt)
        except T.ParseError:
            continue
        if set(acs) == set(names) and all(T.atoms(f) <= set(names) for f in acs.values()): progs.append((txt, names, acs, 'repo'))
    k = 90 if tier == "quick" else 1000
    for i in range(k):
        n = rng.choice([3, 6, 10, 15, 20, 30, 40, 60] if tier == 'thorough' else [3, 8, 12, 20, 30, 45])
        depth = rng.choice([2, 4, 6, 8])
        if i % 9 == 5:
            names, acs = T.rand_adf_colliding(rng, rng.choice([6, 8, 10]))
        elif i % 9 == 7:
            names, acs = T.rand_adf_structured(rng, rng.choice([260, 300, 400]))      # beyond one byte / one machine word of statements
        elif i % 4 == 3:
            names = ['v%d' % j for j in range(n)]
            acs = {x: T.rand_clause(rng, names) for x in names}
        elif i % 3 == 2: names, acs = T.rand_adf_structured(rng, n)
        else: names, acs = T.rand_adf(rng, n, depth, locality=rng.choice([2, 3, 4]) if n > 8 else None)
        facts = [('s', x) for x in names] + [('ac', x) for x in names]
        if rng.random() < 0.6: rng.shuffle(facts)
        txt = T.render(names, acs, rng, order=facts, layout=rng.random() < 0.5)
        progs.append((txt, names, acs, 'seeded n=%d depth<=%d' % (n, depth)))
    return progs


def custom_run(ctx, tier, seed):
    nat = ctx.native()
    rng = random.Random(seed)
    stats = {'queries': 0, 'obligations': 0, 'solver_s': 0.0}
    progs = programs(tier, seed)
    confirmed = []; inconclusive = []; samples = []; nprog = 0; dis_checked = 0; stmts = 0
    for pi, (txt, names, acs, origin) in enumerate(progs):
        for mode in MODES:
            sort = 'none' if pi % 3 == 0 else ('lexi' if pi % 3 == 1 else 'alphanum')
            dis, out = validate_program(nat, txt, names, acs, mode, sort, stats)
            if dis is None:
                inconclusive.append('native compile failed (%s, %s): %s on %s' % (mode, sort, str(out)[:200], txt[:200])); continue
            nprog += 1; stmts += len(names)
            if len(samples) < 4 and mode == MODES[pi % len(MODES)]:
                samples.append({'origin': origin, 'mode': mode, 'sort': sort, 'statements': len(names), 'nodes': len(out['nodes']), 'text': txt[:300]})
            for stmt, asg in dis[:3]:
                dis_checked += 1
                if stmt == '*':
                    confirmed.append(('names:%s:%s' % (mode, hashlib.sha1(txt.encode()).hexdigest()[:12]), {'kind': 'names-differ', 'what': asg, 'text': txt, 'mode': mode, 'sort': sort}, asg)); continue
                ok, detail = confirm(nat, txt, names, acs, mode, sort, stmt, asg, stats)
                v = {'kind': 'wrong-diagram', 'what': '%s compilation (%s sort): the diagram of statement %s differs from its acceptance condition; %s' % (mode, sort, stmt, detail),
                     'text': txt, 'mode': mode, 'sort': sort, 'statement': stmt, 'assignment': asg if isinstance(asg, dict) else str(asg)}
                if ok: confirmed.append(('%s:%s:%s:%s' % (mode, sort, stmt, hashlib.sha1(txt.encode()).hexdigest()[:12]), v, detail))
                else: inconclusive.append('z3 disagreement did not reproduce natively: ' + detail)
    # quoted labels may contain any character except the quote; the biodivine bridge is probed with one such label (fixed input)
    for mode in PROBE_MODES:
        txt = PROBE_TEXT
        names, acs, _ = T.parse(txt)
        dis, out = validate_program(nat, txt, names, acs, mode, 'none', stats)
        if dis is None:
            confirmed.append(('label-probe:%s:%s' % (mode, txt), {'kind': 'no-diagram', 'what': '%s compilation of %s fails: %s' % (mode, txt, str(out)[:160]), 'text': txt, 'mode': mode, 'sort': 'none',
                                                                 'statement': names[0], 'assignment': 'n/a'}, out))
        else: nprog += 1
    # vacuity witness: a deliberately negated specification must be refuted
    txt, names, acs, _ = progs[0]
    dis, _ = validate_program(nat, txt, names, acs, 'native', 'none', {'queries': 0, 'obligations': 0, 'solver_s': 0.0}, canary=True)
    if not dis: inconclusive.append('canary: negated specification was not refuted')
    cov = {'programs': nprog, 'disagreements_checked': dis_checked, 'samples': samples or [{'note': 'none'}],
           'statement_obligations': stats['obligations'], 'obligations': stats['obligations'], 'discharged': stats['obligations'] - dis_checked,
           'solver_queries': stats['queries'], 'solver_seconds': round(stats['solver_s'], 2),
           'modes': MODES, 'texts': len(progs), 'canary': 'refuted as required' if dis else 'FAILED',
           'functions_exercised_natively': ['AdfParser::parse', 'AdfParser::varsort_lexi', 'AdfParser::varsort_alphanum', 'Adf::from_parser', 'Adf::term', 'adfbiodivine::Adf::from_parser',
                                            'Adf::from_biodivine', 'Adf::from_biodivine_vector', 'adfbiodivine::Adf::hybrid_step', 'adfbiodivine::Adf::hybrid_step_opt', 'adfbiodivine::Adf::grounded_internal'],
           'bounds': 'each program (text x compilation mode x sort mode) is decided exactly: for every statement z3 proves diagram == acceptance condition over all assignments '
                     '(pre-grounded import: == condition with the z3-computed grounded values substituted). Programs: every ADF literal in the repository sources plus %d texts drawn from VERIF_SEED '
                     '(3-60 statements, formula depth <= 8, keyword-like and quoted labels, shuffled facts, free layout).' % (len(progs) - sum(1 for p in progs if p[3] == 'repo')),
           'outside_the_bound': 'programs not drawn; this is validation of individual compilations, not a proof of the compiler'}
    return {'level': 'translation_validation', 'coverage': cov, 'confirmed': confirmed, 'inconclusive': inconclusive,
            'assumptions': ['the reference reader/printer for the documented text format (harness/adftext.py) is correct', 'z3 decides Boolean equivalence'],
            'summary': '%d compiled programs (%d texts x %d modes), %d statement obligations decided by z3 (%.1fs), %d disagreements' % (nprog, len(progs), len(MODES), stats['obligations'], stats['solver_s'], dis_checked)}


def replay(ctx, v):
    names, acs, _ = T.parse(v['text'])
    if v.get('kind') == 'no-diagram':
        out = ctx.native().call({'cmd': 'compile', 'text': v['text'], 'mode': v['mode'], 'sort': v['sort']}, timeout=120)
        return ('reproduced' if 'nodes' not in out else 'not-reproduced'), out
    ok, detail = confirm(ctx.native(), v['text'], names, acs, v['mode'], v['sort'], v['statement'], v['assignment'], {'queries': 0})
    return ('reproduced' if ok else 'not-reproduced'), detail
