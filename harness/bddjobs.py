"""Job functions for C06 / C07 (and building blocks for C11/C14/C19): script templates -> symbolic runs."""
import z3, random
from mirse.engine import *
from mirse.hlib import *
from .bddscript import Store, Choice, BINOPS_L

ALL_OPS = ['not', 'and', 'or', 'imp', 'iff', 'xor', 'restrict']


def instantiate(e, st, k, n):
    """turn a template step into a step with symbolic holes"""
    st = dict(st)
    op = st['op']
    if isinstance(op, list):
        op = op[e.choose(len(op), 'op')]
        st['op'] = op
    if op == 'shannon' and st.get('bits') == 'sym':
        st['bits'] = tt_bits('s%d' % k, n)
    if op == 'shannon' and st.get('bits') == 'split':
        from .adflib import split_table
        st['bits'] = split_table('s%d' % k, n)
    for key in ('a', 'b'):
        if st.get(key) == 'choose': st[key] = Choice(key)
    if op in ('not', 'restrict'): st.pop('b', None)
    if op == 'restrict':
        if st.get('var', 'sym') == 'sym':
            v = z3.BitVec('var%d' % k, 64)
            e.assume(z3.ULE(v, n))          # 0..n-1 are the store's variables, n is a variable nobody uses
            st['var'] = v
        if st.get('val', 'sym') == 'sym':
            st['val'] = z3.Bool('val%d' % k)
    if op == 'variable' and st.get('var') == 'sym':
        v = z3.BitVec('var%d' % k, 64); e.assume(z3.ULT(v, n)); st['var'] = v
    if op == 'constant' and st.get('val') == 'sym':
        st['val'] = z3.Bool('val%d' % k)
    return st


def script_job(e, p):
    n = p['n']
    store = Store(e, n, canary=p.get('canary'), features=p.get('features'))
    for k, st in enumerate(p['script']):
        store.step(instantiate(e, st, k, n))
    hs = []
    for h in store.handles:
        x = tv(h); hs.append(str(x) if is_sym(x) else x)
    return {'script': [s['op'] for s in store.script], 'handles': hs, 'nodes': len(store.nodes()),
            'obligations': store.obligations}


def rand_bits(rng, n):
    return [rng.randint(0, 1) for _ in range(1 << n)]


def make_jobs(Job, tier, seed, prop):
    """job list for C06/C07.  prop only selects the canary kind."""
    rng = random.Random(seed)
    jobs = []
    mod = 'harness.bddjobs'
    def J(name, script, n, **kw):
        jobs.append(Job(name, mod, 'script_job', {'n': n, 'script': script}, **kw))
    S = {'op': 'shannon', 'bits': 'sym'}
    def hist(sq):
        # unary first operation: one symbolic operand is enough (keeps the path count down)
        pre = [S] if sq[0] in ('not', 'restrict') else [S, S]
        return pre + [{'op': sq[0], 'a': 0, 'b': 1}] + [{'op': o, 'a': 'choose', 'b': 'choose'} for o in sq[1:]]
    # (a) all pairs of 2-variable functions, every operation (complete space at n = 2)
    for op in ALL_OPS:
        J('n2-pairs-%s' % op, [S, S, {'op': op, 'a': 0, 'b': 1}], 2)
    J('n2-variable-constant', [S, {'op': 'variable', 'var': 'sym'}, {'op': 'constant', 'val': 'sym'}, {'op': ['and', 'xor'], 'a': 0, 'b': 1}], 2)
    # (b) n = 3: one operand symbolic (256 functions), the other drawn from the seed, both argument orders
    nseeds = 2 if tier == 'quick' else 6
    for s in range(nseeds):
        cb = rand_bits(rng, 3)
        for op in ALL_OPS:
            if op in ('not',): continue
            J('n3-%s-sym-x-seed%d' % (op, s), [S, {'op': 'shannon', 'bits': cb}, {'op': op, 'a': 0, 'b': 1}], 3)
            if op != 'restrict':
                J('n3-%s-seed%d-x-sym' % (op, s), [{'op': 'shannon', 'bits': cb}, S, {'op': op, 'a': 0, 'b': 1}], 3)
    J('n3-not', [S, {'op': 'not', 'a': 0}], 3)
    # four variables, branches over interleaved variable sets (supports that are not intervals): every cofactor, then a connective with it
    J('n4-split-restrict', [{'op': 'shannon', 'bits': 'split'}, {'op': 'restrict', 'a': 0}, {'op': ['and', 'xor'], 'a': 0, 'b': 1}], 4)
    # (c) histories on one store: warm memo tables, operands chosen among all issued handles
    if tier == 'quick':
        # every operation followed by a negation of a chosen handle (cheap: unary second step), plus seeded and fixed pairs
        seqs = [[rng.choice(ALL_OPS), rng.choice(ALL_OPS)] for _ in range(4)] + [['and', 'imp'], ['restrict', 'restrict']] + [[o, 'not'] for o in ALL_OPS if o != 'not']
        for i, sq in enumerate(seqs):
            J('n2-history-%s' % '-'.join(sq), hist(sq), 2)
        J('n2-history-reimport', [S, S, {'op': ['and', 'xor', 'restrict'], 'a': 0, 'b': 1}, {'op': 'reimport'}, {'op': ['or', 'iff'], 'a': 0, 'b': 1}], 2)
        J('n2-history-serde-reimport', [S, S, {'op': ['and', 'restrict'], 'a': 0, 'b': 1}, {'op': 'serde_reimport'}, {'op': 'variable', 'var': 'sym'}, {'op': ['or', 'xor'], 'a': 0, 'b': 1}], 2)
    else:
        for o1 in ALL_OPS:
            for o2 in ALL_OPS:
                J('n2-history-%s-%s' % (o1, o2), hist([o1, o2]), 2)
        for s in range(6):
            sq = [rng.choice(ALL_OPS) for _ in range(3)]
            J('n2-history3-%s-%d' % ('-'.join(sq), s), hist(sq), 2)
        J('n2-history-reimport', [S, S, {'op': ALL_OPS, 'a': 0, 'b': 1}, {'op': 'reimport'}, {'op': ALL_OPS, 'a': 0, 'b': 1}], 2)
        J('n2-history-serde-reimport', [S, S, {'op': ALL_OPS, 'a': 0, 'b': 1}, {'op': 'serde_reimport'}, {'op': 'variable', 'var': 'sym'}, {'op': ALL_OPS, 'a': 0, 'b': 1}], 2)
        # n = 3, all pairs for the two central connectives
        for op in ('and', 'xor'):
            J('n3-pairs-%s' % op, [S, S, {'op': op, 'a': 0, 'b': 1}], 3)
        cb = rand_bits(rng, 4)
        J('n4-and-sym3-x-seed', [{'op': 'shannon', 'bits': cb}, {'op': 'shannon', 'bits': rand_bits(rng, 4)}, {'op': 'and', 'a': 0, 'b': 1},
                                 {'op': 'restrict', 'a': 'choose'}], 4)
    # canary: the same harness with a deliberately wrong specification must be reported
    ck = 'spec' if prop == 'C07' else 'canon'
    jobs.append(Job('canary-' + ck, mod, 'script_job', {'n': 2, 'script': [S, S, {'op': 'and', 'a': 0, 'b': 1}], 'canary': ck},
                    stop_after_violations=1, canary=True))
    return jobs
