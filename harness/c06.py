"""C06 - see DESIGN.md section 5; harness shared with C07 (harness/bddscript.py, bddjobs.py, bddprops.py)"""
from . import bddprops
validate = bddprops.validate
replay = bddprops.replay
key = bddprops.key
def spec(ctx, tier, seed): return bddprops.spec(ctx, tier, seed, 'C06')
