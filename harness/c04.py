"""C04 - counting-guided stable search; see DESIGN.md section 5

Besides the end-to-end jobs (semjobs: the whole procedure on symbolic ADF families) there is one unit-level job on the mechanism the
property is anchored in, Bdd::interpretations ("path cubes towards a goal value", documented: "it is ensured that the goal is consistent
with the respective interpretation").  The search overwrites the goal statement with the goal value on every cube; a cube that
contradicts the goal on the goal variable makes two branches overlap, i.e. a stable model is reported twice.  The unit job asks the
solver for a diagram (all functions over n variables), goal and goal variable with such a cube.  A hit is *not* reported as it stands -
the contract is the function's, not the property's: the native side then looks for an ADF having that diagram as the condition of the
goal statement on which heuristics a / b really answer wrongly (judged against the definition).  Only such an ADF is a violation;
a contract breach without one is recorded as a note in the evidence."""
import json
import z3
from mirse.engine import *
from mirse.hlib import *
from mirse.runner import Job
from . import semprops, semjobs, adflib as A

# the pre-study family: b: and(b,a), c: c, statement a symbolic (contains a: c, where heuristics a/b lose the stable model FFF)
B_AND_BA = [((a >> 1) & 1) & (a & 1) for a in range(8)]
C_C = [(a >> 2) & 1 for a in range(8)]
PROCS = ['heu_a', 'heu_b', 'hyb/heu_a', 'hyb/heu_b']
_spec, validate = semprops.make(PROCS, 'heu_a', must3=[['sym', B_AND_BA, C_C]], backend_kinds=('stable_counting',), quick_n3=16, extra_params={'heu_b': {'skip_n4': True}, 'hyb/heu_a': {'skip_n4': True}, 'hyb/heu_b': {'skip_n4': True}})


def cube_job(e, p):
    """Bdd::interpretations on every diagram over n variables: no cube may fix the goal variable to the opposite of the goal"""
    n = p['n']
    tab = tt_bits('f', n)
    bdd, r = new_bdd(e)
    for v in range(n): e.call('obdd::Bdd::variable', [r, T(v)])
    f = build_shannon(e, r, tab, n)
    h = tv(f)
    if is_sym(h) or h <= 1: return {'constant': True}
    empty = SliceRef([], 0, 0)
    seen = 0
    for goal in (False, True):
        for gv in range(n):
            res = e.call('obdd::Bdd::interpretations', [r, e.copyval(f), goal, T(gv), empty, empty])
            for it_ in res.items:
                neg = [e.concretize(tv(x)) if is_sym(tv(x)) else tv(x) for x in it_.f[0].items]
                pos = [e.concretize(tv(x)) if is_sym(tv(x)) else tv(x) for x in it_.f[1].items]
                seen += 1
                if gv in (neg if goal else pos) or p.get('canary'):
                    m = sat_model(e, True)
                    report(e, 'cube-contract', what='interpretations(goal=%s, goal_var=%d) yields the cube -%s +%s, which contradicts the goal on the goal variable'
                           % (goal, gv, neg, pos), case={'n': n, 'tab': tables_from_model(m, [[zb(b) for b in tab]])[0], 'goal': goal, 'goal_var': gv, 'cube': [neg, pos]})
                    return {'cubes': seen}
    return {'cubes': seen}


def spec(ctx, tier, seed):
    s = _spec(ctx, tier, seed)
    s['jobs'].append(Job('unit-cubes-n3', 'harness.c04', 'cube_job', {'n': 3}, stop_after_violations=6))
    if tier == 'thorough': s['jobs'].append(Job('unit-cubes-n4', 'harness.c04', 'cube_job', {'n': 4}, stop_after_violations=6))
    s['bounds'] += (' Unit job on Bdd::interpretations: all 256 diagrams over three variables (thorough: all 65 536 over four), both goals, every goal variable; '
                    'a contract breach is turned into an ADF by a native search over the completions (all 65 536 for three statements, 60 000 pseudo-random for four).')
    return s


def replay(ctx, v):
    if v.get('kind') != 'cube-contract': return semprops.replay(ctx, v)
    c = v['case']; nat = ctx.native(release=True)
    out = nat.call({'cmd': 'completion_search', 'n': c['n'], 'pos': c['goal_var'], 'tab': c['tab'], 'procs': ['heu_a', 'heu_b'], 'reference': 'stable', 'limit': 70000, 'want': 4}, timeout=600)
    tried = out.get('tried')
    for cand in out.get('candidates', []):
        case = {'n': c['n'], 'tabs': cand['tabs'], 'proc': cand['proc']}
        o2 = ctx.native().call(semjobs.native_cmd(case), timeout=20)
        probs = semjobs.judge_native(o2, case)
        if probs:
            # the reported violation is the ADF-level one: rewrite the record so that key, replay and report speak about the ADF
            v['kind'] = 'wrong-stable'; v['unit_counterexample'] = c; v['case'] = case
            v['what'] = '%s on an ADF whose statement %d has the condition found by the unit job: %s' % (cand['proc'], c['goal_var'], '; '.join(probs)[:300])
            return 'reproduced', {'native_output': o2, 'problems': probs, 'completions_tried': tried}
    return 'lemma-only', {'completions_tried': tried, 'note': 'Bdd::interpretations breaks its documented contract on %s, but none of the tried ADFs with that condition makes heuristics a/b answer wrongly' % json.dumps(c)}


def key(v):
    if v.get('kind') == 'cube-contract':
        c = v['case']; return 'cube-contract:%s' % json.dumps([c['n'], c['tab'], c['goal'], c['goal_var']])
    return semprops.key(v)
