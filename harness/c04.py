"""C04 - counting-guided stable search; see DESIGN.md section 5"""
from . import semprops, semjobs
# the pre-study family: b: and(b,a), c: c, statement a symbolic (contains a: c, where heuristics a/b lose the stable model FFF)
B_AND_BA = [((a >> 1) & 1) & (a & 1) for a in range(8)]
C_C = [(a >> 2) & 1 for a in range(8)]
spec, validate = semprops.make(['heu_a', 'heu_b'], 'heu_a', must3=[['sym', B_AND_BA, C_C]], backend_kinds=('stable_counting',), quick_n3=10, extra_params={'heu_b': {'skip_n4': True}})
replay = semprops.replay
key = semprops.key
