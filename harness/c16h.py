"""C16, second half - the synchronous closures of the request handlers (server/src/adf.rs), executed from the MIR of the server binary.

`add_adf_problem` and `solve_adf_problem` hand one closure each to `spawn_blocking`; everything the web service *computes* happens inside them:
  add:   note the task as running -> parse the submitted code -> compile it by the chosen parsing strategy (Naive: Adf::from_parser, Hybrid:
         biodivine + hybrid_step_opt(false)) -> picture of the acceptance conditions -> stored form (SimplifiedAdf) -> task no longer running;
         unparseable code -> Err(message), which the handler stores as an error;
  solve: note the task as running -> rebuild the Adf from the stored form -> strategy dispatch (six strategies) -> one stored answer and one
         picture per model -> task no longer running.
The closures are located in the MIR by the source position of `spawn_blocking(move || ...`, their captured variables are bound by name
(`debug` lines of the MIR), `web::Data`/`Arc`/`Mutex` are single-threaded cells, the parser runs on nom models (as in C08), the Hybrid strategy on
the contract model of biodivine (as in C01-C04).

Symbolic input: the *text* a client submits.  Every acceptance condition is written as the full disjunctive normal form over all statements, each
minterm guarded by a constant `c(v)` / `c(f)` whose distinguishing byte is a solver variable - so the submitted texts range over all
acceptance conditions of the family (all 256 two-statement ADFs, three-statement families), through the real parser.  Decided per path by z3:
  * the add closure answers Ok, its stored form is a reduced ordered store whose roots denote the submitted conditions (following the picture);
  * for every strategy the solve closure's stored answers are exactly the definitional answers for the submitted text (semprops oracles) and every
    picture is faithful (as in the graph jobs);
  * after either closure the set of running tasks is what it was before (the own entry is gone, foreign entries untouched).
Malformed texts (concrete ones, and short texts of symbolic bytes judged by the reference reader of C08): the add closure must not answer Ok.
`AdfProblemInfo::from_adf_prob_and_tasks` (which tasks a GET reports as running): symbolic sets of running entries.

Outside: actix/HTTP, MongoDB (the stored form is handed from the first closure to the second directly), tokio's timeout and spawn, the async
continuation that writes the result into the database, `has_been_solved`, authentication (C17)."""
import json, os, re, random
import z3
from mirse.engine import *
from mirse.hlib import *
from mirse.models import unguard
from mirse.models_nom import SymStr
from mirse.runner import Job
from vlib import build
from . import adflib as A, semjobs, adftext
from . import c16 as K

STRAT = [('Ground', 'grounded'), ('Complete', 'complete'), ('Stable', 'stable'), ('StableCountingA', 'heu_a'), ('StableCountingB', 'heu_b'), ('StableNogood', 'nogood:Simple')]
HNAMES = ['a', 'b2', 'x y']          # the third label needs quotes in the text
USER, PROB = 'u', 'p'


def q(nm): return nm if nm.isalnum() else '"%s"' % nm


FORMS = ['dnf', 'imp', 'xorc', 'iffc']

def dnf_bytes(names, tabs, form='dnf'):
    """the submitted text: s(..) facts, then one ac per statement as a normal form over all statements whose minterm M_r carries a constant c(X_r); the byte
    X_r is ord('v') if the table bit of row r is true - symbolic where the table bit is.  Four ways to write the same function, so that every connective
    meets a constant on its way through the parser and both compilers:
      dnf   or-tree of  and(M_r, c(X_r))                  imp   and-tree of  imp(M_r, c(X_r))
      xorc  or-tree of  and(M_r, xor(c(f), c(X_r)))       iffc  or-tree of  and(M_r, iff(c(v), c(X_r)))"""
    n = len(names); out = []
    def put(s): out.extend(s.encode())
    for nm in names: put('s(%s). ' % q(nm))
    for s, nm in enumerate(names):
        def minterm(r):
            lits = [(q(names[v]) if (r >> v) & 1 else 'neg(%s)' % q(names[v])) for v in range(n)]
            cur = lits[0]
            for l in lits[1:]: cur = 'and(%s,%s)' % (cur, l)
            pre = {'dnf': 'and(%s,c(', 'imp': 'imp(%s,c(', 'xorc': 'and(%s,xor(c(f),c(', 'iffc': 'and(%s,iff(c(v),c('}[form] % cur
            return (pre, r)
        def tree(lo, hi):
            if hi - lo == 1:
                pre, r = minterm(lo); put(pre)
                b = tabs[s][r]
                out.append(z3.If(b, z3.BitVecVal(ord('v'), 8), z3.BitVecVal(ord('f'), 8)) if is_sym(b) else (ord('v') if b else ord('f')))
                put(')))' if form in ('xorc', 'iffc') else '))'); return
            mid = (lo + hi) // 2
            put('and(' if form == 'imp' else 'or('); tree(lo, mid); put(','); tree(mid, hi); put(')')
        put('ac(%s,' % q(nm)); tree(0, 1 << n); put('). ')
    return out


def text_of_model(m, bs): return bytes((m.eval(b, model_completion=True).as_long() if is_sym(b) else b) for b in bs).decode()


def dnf_text(names, tabs, form='dnf'): return bytes(dnf_bytes(names, [[bool(b) for b in t] for t in tabs], form)).decode()


def find_closure(e, handler):
    """the closure handed to spawn_blocking inside the handler: located by its source position"""
    src = open(os.path.join(build.REPO, 'server/src/adf.rs')).read().split('\n')
    for nm, f in e.fns.items():
        if not nm.startswith(handler + '::{closure#0}::{closure#') or nm.count('{closure#') != 2 or not f.params: continue
        m = re.match(r'\{closure@server/src/adf\.rs:(\d+):(\d+)', f.params[0][1])
        if not m: continue
        ln = int(m.group(1)) - 1
        ctx = src[ln][:int(m.group(2))] if 'spawn_blocking' in src[ln] else (src[ln - 1] if ln > 0 else '')
        if 'spawn_blocking' in ctx: return f
    raise Unsupported('cannot locate the spawn_blocking closure of %s in the MIR' % handler)


def sv(x):
    x = unguard(x)
    if isinstance(x, StrBuf): x = x.s
    if isinstance(x, SymStr):
        bs = x.bytes()
        if any(is_sym(b) for b in bs): raise Unsupported('string with symbolic bytes where a concrete one is needed')
        return bytes(bs).decode()
    return x


def running_entry(e, user, name, task):
    t = Enum('Parse', [], 'Task') if task == 'Parse' else Enum('Solve', [Enum(task, [], 'Strategy')], 'Task')
    v = {'username': StrBuf(user), 'adf_name': StrBuf(name), 'task': t}
    return Struct([v[k] for k in e.structs['RunningInfo']])


def entry_key(e, r):
    r = unguard(r); f = {k: r.f[i] for i, k in enumerate(e.structs['RunningInfo'])}
    t = f['task']
    return (sv(f['username']), sv(f['adf_name']), 'Parse' if t.v == 'Parse' else t.f[0].v)


def app_state(e, others):
    st = {'mongodb_client': UNIT, 'currently_running': CellObj(SetObj([running_entry(e, *o) for o in others]), 'mutex')}
    return CellObj(CellObj(Struct([st[k] for k in e.structs['AppState']]), 'arc'), 'data')


def running_now(e, app):
    s = app.c[0].c[0].f[e.structs['AppState'].index('currently_running')].c[0]
    return sorted(entry_key(e, x) for x in s.e)


def call_closure(e, handler, vals):
    f = find_closure(e, handler)
    env = []
    for nm, i in sorted(f.captures, key=lambda x: x[1]):
        if nm not in vals: raise Unsupported('closure of %s captures %s, which the harness does not know' % (handler, nm))
        env.append(vals[nm])
    if not env: raise Unsupported('closure of %s: no captured variables found in the MIR' % handler)
    return e.call(f.name, [Struct(env)])


def add_vals(e, app, code, parsing):
    body = {'name': StrBuf(PROB), 'code': code, 'parsing': parsing}
    return {'username_clone': StrBuf(USER), 'problem_name_clone': StrBuf(PROB), 'username': StrBuf(USER), 'problem_name': StrBuf(PROB), 'app_state': app,
            'adf_problem_input__code': code, 'adf_problem_input__parsing': parsing, 'adf_problem_input__name': StrBuf(PROB),
            'adf_problem_input': Struct([body[k] for k in e.structs['AddAdfProblemBodyPlain']])}


def solve_vals(e, app, simp, strat):
    s = Enum(strat, [], 'Strategy')
    return {'app_state': app, 'running_info': running_entry(e, USER, PROB, strat), 'simp_adf': simp, 'adf_problem_input__strategy': s,
            'adf_problem_input': Struct([s]), 'username': StrBuf(USER), 'problem_name': StrBuf(PROB), 'username_clone': StrBuf(USER), 'problem_name_clone': StrBuf(PROB)}


def read_simp(e, simp):
    f = {k: simp.f[i] for i, k in enumerate(e.structs['SimplifiedAdf'])}
    o = {k: f['ordering'].f[i] for i, k in enumerate(e.structs['VarContainerDb'])}
    names = [sv(x) for x in unguard(o['names']).items]
    mapping = {sv(k): sv(v[0]) for k, v in unguard(o['mapping']).e}
    nodes = []
    for nd in unguard(f['bdd']).items:
        g = {k: nd.f[i] for i, k in enumerate(e.structs['BddNodeDb'])}
        nodes.append((int(sv(g['var'])), int(sv(g['lo'])), int(sv(g['hi']))))
    ac = [int(sv(x)) for x in unguard(f['ac']).items]
    return names, mapping, nodes, ac


def read_ag(e, ag):
    f = {k: ag.f[i] for i, k in enumerate(e.structs['AcAndGraph'])}
    return [sv(x) for x in unguard(f['ac']).items], K.read_graph(e, f['graph'])


def store_problems(nodes, ac, names, want_names):
    """the stored form is a reduced, ordered, duplicate-free node list with the two terminals in front, and the dictionary is the submitted one"""
    probs = []
    if names != want_names: probs.append('stored statement names %s, submitted %s' % (names, want_names))
    if len(ac) != len(want_names): probs.append('%d stored roots for %d statements' % (len(ac), len(want_names)))
    seen = set()
    for i, (v, lo, hi) in enumerate(nodes):
        if i < 2: continue
        if lo == hi: probs.append('node %d has equal branches' % i)
        if (v, lo, hi) in seen: probs.append('node %d is a duplicate' % i)
        seen.add((v, lo, hi))
        if not (lo < len(nodes) and hi < len(nodes)): probs.append('node %d points outside the list' % i); continue
        for c in (lo, hi):
            if c > 1 and nodes[c][0] <= v: probs.append('node %d: child tests an earlier variable' % i)
    if any(t >= len(nodes) for t in ac): probs.append('root outside the node list')
    return probs


def judge_picture(gl, nodes, acv, names):
    """a picture of a model, judged on its own: the solve closure rebuilds the store and may create nodes beyond the stored list (grounded / complete
    answers are restrictions), so the node table is only binding for the handles it has.  Node set = what is reachable from the roots inside the picture,
    every inner node has exactly one lo and one hi edge, children test later variables, terminals are labelled BOT / TOP, every statement labels its root."""
    node_labels, roots, lo, hi = gl
    probs = []
    lo_d = {}; hi_d = {}
    for edges, d, nm in ((lo, lo_d, 'lo'), (hi, hi_d, 'hi')):
        for a, b in edges:
            if a in d: probs.append('node %s has two %s edges' % (a, nm))
            d[a] = b
    reach = set(); todo = [str(t) for t in acv]
    while todo:
        t = todo.pop()
        if t in reach: continue
        reach.add(t)
        if t in ('0', '1'): continue
        if t not in lo_d or t not in hi_d: probs.append('inner node %s lacks an edge' % t); continue
        todo += [lo_d[t], hi_d[t]]
    if set(node_labels) != reach: probs.append('node set %s, reachable from the roots %s' % (sorted(node_labels), sorted(reach)))
    if set(lo_d) - reach or set(hi_d) - reach: probs.append('edges from nodes that are not reachable')
    for t in reach:
        lab = node_labels.get(t)
        if t in ('0', '1'):
            if lab != ('BOT', 'TOP')[int(t)]: probs.append('terminal %s labelled %r' % (t, lab))
            if t in lo_d or t in hi_d: probs.append('terminal %s has edges' % t)
            continue
        if lab not in names: probs.append('node %s labelled %r' % (t, lab)); continue
        if t in lo_d and t in hi_d:
            if lo_d[t] == hi_d[t]: probs.append('node %s has equal branches' % t)
            for c in (lo_d[t], hi_d[t]):
                cl = node_labels.get(c)
                if cl in names and names.index(cl) <= names.index(lab): probs.append('node %s: child %s tests an earlier variable' % (t, c))
            if int(t) < len(nodes):
                v, l, h = nodes[int(t)]
                if (names[v] if v < len(names) else None, str(l), str(h)) != (lab, lo_d[t], hi_d[t]): probs.append('node %s differs from the stored node list' % t)
    want_roots = {t: [] for t in reach}
    for s_, t in enumerate(acv): want_roots.setdefault(str(t), []).append(names[s_])
    if {k: sorted(v) for k, v in roots.items()} != {k: sorted(v) for k, v in want_roots.items()}: probs.append('root labels %s, expected %s' % (roots, want_roots))
    return probs


def chain_job(e, p):
    """submitted text -> add closure -> stored form -> solve closure for every strategy"""
    n = p['n']; parsing = p['parsing']; canary = p.get('canary')
    names = HNAMES[:n]
    tabs = A.family_tabs(n, p['fam'])
    bs = dnf_bytes(names, tabs, p.get('form', 'dnf'))
    others = [('w', PROB, 'Parse'), (USER, 'other', 'Stable')]
    def case(m):
        return {'handler': 'chain', 'n': n, 'names': names, 'parsing': parsing, 'code': text_of_model(m, bs), 'others': [list(o) for o in others],
                'tabs': tables_from_model(m, [[zb(b) for b in t] for t in tabs]), 'strategies': [s for s, _ in STRAT]}
    def on_panic(e_, msg):
        m = sat_model(e_, True)
        if m is not None: report(e_, 'handler', what='the handler closure panics on well-formed code (the problem ends as an error): %s' % msg[:200], case=case(m))
    e.hooks['on_panic'] = on_panic
    app = app_state(e, others)
    r = call_closure(e, 'add_adf_problem', add_vals(e, app, StrBuf(SymStr(bs)), Enum(parsing, [], 'Parsing')))
    probs = []
    if running_now(e, app) != sorted(others): probs.append('after the parse task ended the running tasks are %s, before it started %s' % (running_now(e, app), sorted(others)))
    if r.v != 'Ok':
        m = sat_model(e, True); report(e, 'handler', what='well-formed code is answered with the error %r' % (sv(r.f[0]) if r.f else None), case=case(m))
        return {'parsing': parsing, 'ok': False}
    simp, ag = r.f[0].f[0], r.f[0].f[1]
    snames, mapping, nodes, ac = read_simp(e, simp)
    probs += store_problems(nodes, ac, snames, names)
    if mapping != {nm: str(i) for i, nm in enumerate(names)}: probs.append('stored dictionary %s' % mapping)
    ag_ac, gl = read_ag(e, ag)
    if ag_ac != [str(t) for t in ac]: probs.append('parse-only answer %s, stored roots %s' % (ag_ac, ac))
    conds = []
    if not probs:
        probs += K.judge_graph(*gl, nodes, ac, names)
        for s in range(n):
            for asg in range(1 << n):
                rr = K.follow(*gl, names, s, asg)
                if rr is None: probs.append('the parse-only picture cannot be followed from the root of %s' % names[s]); break
                conds.append(differs(rr, zb(tabs[s][asg])))
    if canary: probs.append('canary')
    m = sat_model(e, True) if probs else sat_model(e, e.or_all(conds))
    if m is not None:
        report(e, 'handler', what='add: %s' % ('; '.join(probs[:3]) or 'following the parse-only picture does not evaluate the submitted acceptance condition'), case=case(m))
        return {'parsing': parsing, 'ok': True, 'bad': True}
    answers = {}
    for strat, proc in STRAT:
        before = running_now(e, app)
        res = call_closure(e, 'solve_adf_problem', solve_vals(e, app, e.copyval(simp), strat))
        sp = []
        if running_now(e, app) != before: sp.append('after the %s task ended the running tasks are %s, before it started %s' % (strat, running_now(e, app), before))
        got = []; conds = []
        for item in unguard(res).items:
            a, g = read_ag(e, item)
            acv = [int(x) for x in a]
            got.append(''.join('F' if t == 0 else 'T' if t == 1 else 'u' for t in acv))
            if len(acv) != n: sp.append('stored answer %s is not a list of %d handles' % (a, n)); continue
            sp += judge_picture(g, nodes, acv, names)
            for s in range(n):
                for asg in range(1 << n):
                    if any(acv[v] <= 1 and ((asg >> v) & 1) != acv[v] for v in range(n)): continue
                    rr = K.follow(*g, names, s, asg)
                    if rr is None: sp.append('picture of model %s cannot be followed from the root of %s' % (a, names[s])); break
                    conds.append(differs(rr, zb(tabs[s][asg])))
        answers[strat] = got
        wrong = semjobs.answer_mismatch(e, p['fam'], tabs, n, proc, got)
        if wrong is not None:
            report(e, 'handler', what='strategy %s (%s parsing) stores the answers %s, the definition gives %s' % (strat, parsing, got, wrong[2]), case=case(wrong[0]), expected=wrong[2])
            continue
        m = sat_model(e, True) if sp else sat_model(e, e.or_all(conds))
        if m is not None:
            report(e, 'handler', what='strategy %s: %s' % (strat, '; '.join(sp[:3]) or 'a picture of a model does not evaluate the acceptance condition restricted by the model'), case=case(m))
    return {'parsing': parsing, 'ok': True, 'nodes': len(nodes), 'answers': answers}


MALFORMED = ['s(a). s(b). ac(a,neg(b). ac(b,neg(a)).', 's(a) ac(a,a).', 's(a). ac(a,nand(a,a)).', 's(a). ac(a,a)', 's(a). ac(a,and(a)).', 's(a). ac(a,a). x', 's(a). ac(a,c(x)).',
             's(a). ac(a,neg(a,a)).', '', 's(a). ac(a,"a).', 's(a). ac(a,or(a,)).', 's(a)..ac(a,a).']


def reject_job(e, p):
    """malformed code must not be answered with Ok: concrete texts, or a short text of symbolic bytes judged by the reference reader of C08"""
    from . import c08
    parsing = p['parsing']
    if 'text' in p: bs = list(p['text'].encode()); inp = SymStr(bs); malformed = True
    else:
        bs, inp = c08.sym_input(e, len(p.get('prefix', '')) + p['L'])          # the prefix followed by L symbolic bytes
        for b, ch in zip(bs, p.get('prefix', '')): e.assume(b == ord(ch))
        malformed = None
    others = [('w', PROB, 'Parse')]
    def case(m): return {'handler': 'reject', 'parsing': parsing, 'code': c08.text_of(m, bs), 'others': [list(o) for o in others]}
    e.hooks['on_panic'] = lambda e_, msg: None          # a panic ends the blocking task with a JoinError, which the handler stores as an error
    app = app_state(e, others)
    r = call_closure(e, 'add_adf_problem', add_vals(e, app, StrBuf(inp), Enum(parsing, [], 'Parsing')))
    if malformed is None:
        malformed = c08.SymReader(e, inp).attempt(c08.SymReader(e, inp).file) is None
    probs = []
    if malformed and r.v == 'Ok': probs.append('malformed code is answered with a stored ADF instead of an error')
    if p.get('canary') and r.v != 'Ok': probs.append('canary')
    if running_now(e, app) != sorted(others): probs.append('after the parse task ended the running tasks are %s, before it started %s' % (running_now(e, app), sorted(others)))
    if probs:
        m = sat_model(e, True); report(e, 'handler', what='; '.join(probs), case=case(m))
    return {'malformed': malformed, 'ok': r.v == 'Ok'}


TASKS = ['Parse', 'Ground', 'Stable']

def running_job(e, p):
    """AdfProblemInfo::from_adf_prob_and_tasks: exactly the tasks of the entries for this user's problem of this name are reported as running"""
    k = p['k']
    entries = []
    for i in range(k):
        c = e.choose(2 * 2 * len(TASKS), 'entry%d' % i)
        entries.append((['u', 'w'][c % 2], ['p', 'q'][(c // 2) % 2], TASKS[c // 4]))
    if len(set(entries)) != len(entries): raise Infeasible()
    st = SetObj([running_entry(e, *x) for x in entries])
    prob = {'name': StrBuf('p'), 'username': StrBuf('u'), 'code': StrBuf(''), 'parsing_used': Enum('Naive', [], 'Parsing'), 'adf': Enum('None', [], 'OptionWithError'),
            'acs_per_strategy': Struct([Enum('None', [], 'OptionWithError') for _ in e.structs['AcsPerStrategy']])}
    fn = [nm for nm in e.fns if nm.endswith('::from_adf_prob_and_tasks')]
    if not fn: raise Unsupported('AdfProblemInfo::from_adf_prob_and_tasks not found')
    info = e.call(fn[0], [Struct([prob[x] for x in e.structs['AdfProblem']]), Ref([st], 0)])
    rt = unguard(info.f[e.structs['AdfProblemInfo'].index('running_tasks')]).items
    got = sorted(('Parse' if t.v == 'Parse' else t.f[0].v) for t in rt)
    want = sorted(t for u, nm, t in entries if u == 'u' and nm == 'p')
    if p.get('canary'): want = want + ['canary']
    if got != want:
        report(e, 'handler', what='problem p of user u: running entries %s are reported as the running tasks %s' % (entries, got),
               case={'handler': 'running', 'running': [list(x) for x in entries], 'name': 'p', 'user': 'u'})
    return {'entries': k}


# ------------------------------------------------------------------ native side

def judge_native_chain(out, case):
    """the same judgement on the output of the real closures (replay/src/server_cmds.rs: handler_chain)"""
    probs = []
    if 'add_ok' not in out: return ['native run failed: %s' % str(out)[:300]]
    others = sorted(tuple(o) for o in case['others'])
    if sorted(tuple(x) for x in out['running_after_add']) != others: probs.append('running tasks after the parse task: %s' % out['running_after_add'])
    if case['handler'] == 'reject':
        try: adftext.parse(case['code']); bad = False
        except adftext.ParseError: bad = True
        if bad and out['add_ok']: probs.append('malformed code is answered with a stored ADF instead of an error')
        return probs
    if not out['add_ok']: return probs + ['well-formed code is answered with the error %r' % out.get('err')]
    n = case['n']; names = case['names']; tabs = case['tabs']
    simp = out['simp']
    nodes = [(int(x['var']), int(x['lo']), int(x['hi'])) for x in simp['bdd']]
    ac = [int(x) for x in simp['ac']]
    probs += store_problems(nodes, ac, simp['ordering']['names'], names)
    if probs: return probs
    def gl_of(g): return (g['node_labels'], g['tree_root_labels'], [tuple(x) for x in g['lo_edges']], [tuple(x) for x in g['hi_edges']])
    po = out['parse_only']
    if po['ac'] != simp['ac']: probs.append('parse-only answer %s, stored roots %s' % (po['ac'], simp['ac']))
    gl = gl_of(po['graph'])
    probs += K.judge_graph(*gl, nodes, ac, names)
    for s in range(n):
        for asg in range(1 << n):
            if K.follow(*gl, names, s, asg) != bool(tabs[s][asg]): probs.append('parse-only picture: %s under assignment %d' % (names[s], asg)); break
    for strat, proc in STRAT:
        if strat not in out['solves']: continue
        if sorted(tuple(x) for x in out['running_after_solve'][strat]) != others: probs.append('running tasks after %s: %s' % (strat, out['running_after_solve'][strat]))
        got = []
        for item in out['solves'][strat]:
            acv = [int(x) for x in item['ac']]
            got.append(''.join('F' if t == 0 else 'T' if t == 1 else 'u' for t in acv))
            if len(acv) != n: probs.append('stored answer %s' % item['ac']); continue
            g = gl_of(item['graph'])
            probs += judge_picture(g, nodes, acv, names)
            for s in range(n):
                for asg in range(1 << n):
                    if any(acv[v] <= 1 and ((asg >> v) & 1) != acv[v] for v in range(n)): continue
                    if K.follow(*g, names, s, asg) != bool(tabs[s][asg]): probs.append('%s: picture of model %s: %s under assignment %d' % (strat, item['ac'], names[s], asg)); break
        exp = semjobs.py_oracle(semjobs.oracle_kind(proc), tabs, n)
        if sorted(got) != sorted(exp) or (proc == 'complete' and got and got[0] != semjobs.py_oracle('grounded', tabs, n)[0]):
            probs.append('strategy %s stores the answers %s, the definition gives %s' % (strat, got, exp))
    return probs


def replay(ctx, v):
    case = v['case']
    nat = K.native(ctx)
    if case['handler'] == 'running':
        out = nat.call(dict(case, cmd='running_tasks'), timeout=30)
        want = sorted(t for u, nm, t in case['running'] if u == case['user'] and nm == case['name'])
        return ('not-reproduced', out) if out.get('running_tasks') == want else ('reproduced', {'native_output': out, 'expected': want})
    out = nat.call(dict(case, cmd='handler_chain', user=USER, name=PROB, strategies=case.get('strategies', [])), timeout=60)
    if 'panic' in out:
        if case['handler'] == 'reject': return 'not-reproduced', out
        return 'reproduced', {'problems': ['the handler closure panics: %s' % str(out['panic'])[:200]], 'native_output': out}
    probs = judge_native_chain(out, case)
    return ('reproduced', {'problems': probs[:5], 'native_output': out}) if probs else ('not-reproduced', out)


def key(v):
    c = v['case']
    if c['handler'] == 'running': return 'handler:running:%s' % json.dumps(c['running'])
    return 'handler:%s:%s:%s' % (c['handler'], c['parsing'], c['code'])


def validate(ctx, eng, nat, tier, seed):
    """concrete differential runs: real closures (native) vs the closures' MIR in the engine - stored form, pictures, answers, running tasks"""
    rng = random.Random(seed * 61 + 5)
    mism = []; cnt = 0
    for i in range(6 if tier == 'quick' else 20):
        n = rng.choice([2, 2, 3]); names = HNAMES[:n]
        tabs = A.rand_tabs(rng, n); parsing = rng.choice(['Naive', 'Hybrid'])
        code = dnf_text(names, tabs, FORMS[i % 4]) if i % 3 else MALFORMED[i % len(MALFORMED)]
        strategies = [s for s, _ in STRAT]
        out = nat.call({'cmd': 'handler_chain', 'code': code, 'parsing': parsing, 'strategies': strategies, 'others': [['w', PROB, 'Parse']], 'user': USER, 'name': PROB}, timeout=60)
        eng.reset_path([]); eng.path_violations = []; eng.hooks['on_panic'] = lambda e_, msg: None
        try:
            app = app_state(eng, [('w', PROB, 'Parse')])
            r = call_closure(eng, 'add_adf_problem', add_vals(eng, app, StrBuf(SymStr(list(code.encode()))), Enum(parsing, [], 'Parsing')))
            mine = {'add_ok': r.v == 'Ok', 'running_after_add': [list(x) for x in running_now(eng, app)]}
            if r.v == 'Ok':
                simp = r.f[0].f[0]
                snames, mapping, nodes, ac = read_simp(eng, simp)
                mine['simp'] = {'names': snames, 'nodes': nodes, 'ac': ac}
                mine['solves'] = {}
                for strat in strategies:
                    res = call_closure(eng, 'solve_adf_problem', solve_vals(eng, app, eng.copyval(simp), strat))
                    mine['solves'][strat] = [read_ag(eng, it)[0] for it in unguard(res).items]
        except RustPanic as ex:
            mine = {'panic': str(ex)[:100]}
        except Exception as ex:
            mism.append('mirse failed on %r (%s): %r' % (code, parsing, ex)); continue
        theirs = {'add_ok': out.get('add_ok'), 'running_after_add': out.get('running_after_add')} if 'panic' not in out else {'panic': True}
        if out.get('add_ok'):
            theirs['simp'] = {'names': out['simp']['ordering']['names'], 'nodes': [(int(x['var']), int(x['lo']), int(x['hi'])) for x in out['simp']['bdd']], 'ac': [int(x) for x in out['simp']['ac']]}
            theirs['solves'] = {s: [it['ac'] for it in out['solves'][s]] for s in strategies}
        if 'panic' in mine and 'panic' in theirs: cnt += 1; continue
        if parsing == 'Hybrid' and mine.get('add_ok') and theirs.get('add_ok'):
            # the node numbering of a bridged store depends on biodivine's physical node order, which the contract model does not reproduce:
            # compare names, number of roots and the answers as information values
            cls = lambda d: {s: sorted(''.join('F' if t == '0' else 'T' if t == '1' else 'u' for t in a) for a in v) for s, v in d.items()}
            same = mine['simp']['names'] == theirs['simp']['names'] and cls(mine['solves']) == cls(theirs['solves']) and mine['running_after_add'] == theirs['running_after_add']
        else: same = mine == theirs
        if not same: mism.append('handler chain on %r (%s): native %s / mirse %s' % (code, parsing, str(theirs)[:300], str(mine)[:300]))
        cnt += 1
    return cnt, mism


def jobs(k, tier, rng):
    mod = 'harness.c16h'; out = []
    # the way the text writes a condition rotates with VERIF_SEED (quick) / is exhaustive (thorough); the plain DNF always runs under Naive parsing
    sd = rng.randrange(3)
    plan = [('Naive', 'dnf'), ('Hybrid', FORMS[1 + sd])] if tier == 'quick' else [(pa, fo) for pa in ('Naive', 'Hybrid') for fo in FORMS]
    for parsing, form in plan:
        out.append(Job('handler-n2-%s-%s' % (parsing, form), mod, 'chain_job', {'n': 2, 'fam': ['sym', 'sym'], 'parsing': parsing, 'form': form}, engine_key=k, stop_after_violations=40))
    fams = semjobs.families(3, 1, rng, 1 if tier == 'quick' else 4)
    for i, fam in enumerate(fams):
        for parsing in (('Naive', 'Hybrid') if tier != 'quick' else (('Naive', 'Hybrid')[i % 2],)):
            out.append(Job('handler-n3-%d-%s' % (i, parsing), mod, 'chain_job', {'n': 3, 'fam': fam, 'parsing': parsing, 'form': FORMS[(1 + sd + i + (parsing == 'Hybrid')) % 4]}, engine_key=k, stop_after_violations=40))
    for i, t in enumerate(MALFORMED):
        out.append(Job('handler-reject-%d' % i, mod, 'reject_job', {'text': t, 'parsing': ('Naive', 'Hybrid')[i % 2]}, engine_key=k, stop_after_violations=40))
    out.append(Job('handler-reject-sym', mod, 'reject_job', {'L': 3 if tier == 'quick' else 4, 'prefix': 's(a).ac(a,', 'parsing': 'Naive'}, engine_key=k, stop_after_violations=40))
    out.append(Job('handler-running', mod, 'running_job', {'k': 2 if tier == 'quick' else 3}, engine_key=k, stop_after_violations=40))
    out.append(Job('handler-canary', mod, 'chain_job', {'n': 2, 'fam': ['sym', [0, 1, 1, 0]], 'parsing': 'Naive', 'canary': True}, engine_key=k, stop_after_violations=1, canary=True))
    return out
