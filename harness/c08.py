"""C08 - parser accepts the documented syntax faithfully and rejects malformed text whole (DESIGN.md section 5/C08)

The crate's grammar composition (parser.rs: order of alternatives, tags, `.map` closures building Formula values, dictionary updates
in parse_statement / parse_ac) is executed from its MIR on an input of concrete length whose bytes are solver variables over a small
alphabet; the 18 nom combinators it uses are models (mirse/models_nom.py).  A reference recogniser for the documented grammar runs on
the same symbolic bytes; per path the two must agree on accept/reject, consumed length, tree shape, verbatim label slices, argument
order, and (file level) the resulting statement list / dictionary / formula list."""
import json, random
import z3
from mirse.engine import *
from mirse.hlib import *
from mirse.models import unguard
from mirse.models_nom import SymStr, in_ranges, ALNUM, SPACE, byte_eq
from mirse.runner import Job
from . import adftext as T
from .bddprops import ASSUMPTIONS

ALPHABET = '(),." \nacdefgimnoprsvxbz1#'
BINOPS = T.BINOPS


E1, E2 = 0xC3, 0xA9        # the two bytes of 'é': one non-ASCII, two-byte character in the alphabet (a &str is always valid UTF-8)

def sym_input(e, L, name='in'):
    bs = [z3.BitVec('%s%d' % (name, i), 8) for i in range(L)]
    for i, b in enumerate(bs):
        e.assume(z3.Or(*([b == ord(ch) for ch in ALPHABET] + [b == E1, b == E2])))
        e.assume(z3.Implies(b == E1, bs[i + 1] == E2 if i + 1 < L else z3.BoolVal(False)))
        e.assume(z3.Implies(b == E2, bs[i - 1] == E1 if i > 0 else z3.BoolVal(False)))
    return bs, SymStr(bs)


class RefFail(Exception): pass


class SymReader:
    """the reference PEG of harness/adftext.py on symbolic bytes (forks through e.branch)"""
    def __init__(self, e, s): self.e = e; self.s = s
    def is_(self, i, ch):
        return i < self.s.n and self.e.branch(byte_eq(self.s.at(i), ord(ch)))
    def tag(self, i, t):
        for k, ch in enumerate(t):
            if not self.is_(i + k, ch): raise RefFail()
        return i + len(t)
    def ws(self, i):
        while i < self.s.n and self.e.branch(in_ranges(self.e, self.s.at(i), SPACE)): i += 1
        return i
    def atomic(self, i):
        if self.is_(i, '"'):
            j = i + 1
            while j < self.s.n and not self.is_(j, '"'): j += 1
            if j >= self.s.n: raise RefFail()
            return j + 1, (i + 1, j - i - 1)
        j = i
        while j < self.s.n and self.e.branch(in_ranges(self.e, self.s.at(j), ALNUM)): j += 1
        if j == i: raise RefFail()
        return j, (i, j - i)
    def attempt(self, f, *a):
        try: return f(*a)
        except RefFail: return None
    def formula(self, i):
        for t, node in (('c(v)', ('top',)), ('c(f)', ('bot',))):
            if self.attempt(self.tag, i, t) is not None: return i + len(t), node
        for op in BINOPS:
            def binop():
                j = self.tag(i, op + '(')
                j, f = self.formula(j)
                j = self.ws(j); j = self.tag(j, ','); j = self.ws(j)
                j, g = self.formula(j)
                j = self.tag(j, ')')
                return j, (op, f, g)
            r = self.attempt(binop)
            if r is not None: return r
        def neg():
            j = self.tag(i, 'neg(')
            j, f = self.formula(j)
            j = self.tag(j, ')')
            return j, ('neg', f)
        r = self.attempt(neg)
        if r is not None: return r
        j, sl = self.atomic(i)
        return j, ('atom', sl)
    def fact(self, i):
        def sfact():
            j = self.tag(i, 's(')
            j, nm = self.atomic(j)
            j = self.tag(j, ').'); j = self.ws(j)
            return j, ('s', nm)
        r = self.attempt(sfact)
        if r is not None: return r
        j = self.tag(i, 'ac(')
        j, nm = self.atomic(j)
        j = self.ws(j); j = self.tag(j, ','); j = self.ws(j)
        j, f = self.formula(j)
        j = self.tag(j, ').'); j = self.ws(j)
        return j, ('ac', nm, f)
    def file(self):
        i, f = self.fact(0); facts = [f]
        while i < self.s.n:
            i, f = self.fact(i); facts.append(f)
        return facts


def real_ast(e, v):
    """Formula value produced by the crate -> reference shape; atoms become (start, len) slices of the input"""
    v = unguard(v)
    k = v.v
    if k == 'Top': return ('top',)
    if k == 'Bot': return ('bot',)
    if k == 'Atom':
        s = v.f[0]
        if not isinstance(s, SymStr): raise Unsupported('atom is not a slice of the input: %r' % (s,))
        return ('atom', (s.start, s.n))
    if k == 'Not': return ('neg', real_ast(e, v.f[0]))
    return ({'And': 'and', 'Or': 'or', 'Imp': 'imp', 'Xor': 'xor', 'Iff': 'iff'}[k], real_ast(e, v.f[0]), real_ast(e, v.f[1]))


def tree_atoms(t, out):
    if t[0] == 'atom': out.append(t[1])
    elif t[0] not in ('top', 'bot'):
        for x in t[1:]: tree_atoms(x, out)

def tree_eval(t, val):
    k = t[0]
    if k == 'top': return True
    if k == 'bot': return False
    if k == 'atom': return val(t[1])
    if k == 'neg': return not tree_eval(t[1], val)
    a, b = tree_eval(t[1], val), tree_eval(t[2], val)
    return {'and': a and b, 'or': a or b, 'imp': (not a) or b, 'xor': a != b, 'iff': a == b}[k]

def sem_differs(e, inp, t1, t2):
    """the property asks for a formula *denoting the Boolean function written in the file*, labels verbatim - not for a particular tree: two trees differ
    only if some assignment to their atoms (atoms = label slices, equal iff their bytes are equal, decided by the solver) distinguishes them"""
    if t1 == t2: return False
    sl = []; tree_atoms(t1, sl); tree_atoms(t2, sl)
    reps = []; cls = {}
    for a in sl:
        if a in cls: continue
        for i, r in enumerate(reps):
            if same_slice(e, inp, a, r): cls[a] = i; break
        else: cls[a] = len(reps); reps.append(a)
    if len(reps) > 10: return True
    for asg in range(1 << len(reps)):
        val = lambda a: bool((asg >> cls[a]) & 1)
        if tree_eval(t1, val) != tree_eval(t2, val): return True
    return False


def text_of(m, bs): return bytes(mint(m, b) for b in bs).decode('utf-8', 'replace')


def formula_job(e, p):
    L = p['L']; canary = p.get('canary')
    bs, inp = sym_input(e, L)
    if p.get('prefix'):
        for b, ch in zip(bs, p['prefix']): e.assume(b == ord(ch))
    def on_panic(e_, msg):
        m = sat_model(e_, True)
        if m is not None: report(e_, 'panic', what='parser panics: %s' % msg[:200], text=text_of(m, bs), level='formula')
    e.hooks['on_panic'] = on_panic
    r = e.call('parser::AdfParser::formula', [inp])
    ref = SymReader(e, inp).attempt(SymReader(e, inp).formula, 0)
    got = None
    if r.v == 'Ok':
        rest = r.f[0].f[0]; got = (rest.start, real_ast(e, r.f[0].f[1]))
    if canary and ref is not None: ref = (ref[0], ('neg', ref[1]))
    if (got is None) != (ref is None) or (got is not None and (got[0] != ref[0] or sem_differs(e, inp, got[1], ref[1]))):
        m = sat_model(e, True)
        report(e, 'parser-differs', what='formula level: crate %s, documented grammar %s' % (show(got), show(ref)), text=text_of(m, bs), level='formula')
    return {'L': L, 'accepted': got is not None, 'tree': show(got)}


def show(x):
    if x is None: return 'rejects'
    return 'accepts %d bytes as %s' % (x[0], x[1])


OPERANDS = ['a', 'b', 'c(v)', 'c(f)', 'neg(a)']

def file_job(e, p):
    canary = p.get('canary')
    if p.get('shapes'):
        # longer well-formed files than the byte-wise jobs reach: ac(a,OP(X,Y)). ac(b,neg(Y)). with the connective and both operands chosen by the
        # solver among the five connectives and {a, b, c(v), c(f), neg(a)}; what the parser stores must be the tree that is written (constants included)
        op = BINOPS[e.choose(len(BINOPS), 'op')]; x = OPERANDS[e.choose(len(OPERANDS), 'x')]; y = OPERANDS[e.choose(len(OPERANDS), 'y')]
        text = 's(a).s(b).ac(a,%s(%s,%s)).ac(b,neg(%s)).' % (op, x, y, y)
        bs = list(text.encode()); inp = SymStr(bs); L = len(bs)
    else:
        L = p['L']
        bs, inp = sym_input(e, L)
    if p.get('prefix'):
        for b, ch in zip(bs, p['prefix']): e.assume(b == ord(ch))
    def on_panic(e_, msg):
        m = sat_model(e_, True)
        if m is not None: report(e_, 'panic', what='parser panics: %s' % msg[:200], text=text_of(m, bs), level='file')
    e.hooks['on_panic'] = on_panic
    parser = e.call('<parser::AdfParser as Default>::default', [])
    rp = Ref([parser], 0)
    clos = e.call('parser::AdfParser::parse', [rp])
    r = e.call_value(clos, [inp])
    ref = SymReader(e, inp).attempt(SymReader(e, inp).file)
    ok = r.v == 'Ok'
    probs = []
    if ok != (ref is not None): probs.append('crate %s, documented grammar %s' % ('accepts' if ok else 'rejects', 'accepts' if ref is not None else 'rejects'))
    elif ok:
        names = []; fnames = []; forms = []
        for f in ref:
            if f[0] == 's':
                if not any(same_slice(e, inp, f[1], x) for x in names): names.append(f[1])
            else: fnames.append(f[1]); forms.append(f[2])
        st = {k: parser.f[i] for i, k in enumerate(e.structs['AdfParser'])}
        nl = [unguard(x) for x in unguard(st['namelist']).items]
        got_names = [(x.s.start, x.s.n) for x in nl]
        if got_names != names: probs.append('statement list %s, documented %s' % (got_names, names))
        fl = [real_ast(e, x) for x in unguard(st['formulae']).items]
        if canary: fl = fl[::-1] + [('top',)]
        if len(fl) != len(forms) or any(sem_differs(e, inp, x, y) for x, y in zip(fl, forms)): probs.append('formulas %s, documented %s' % (fl, forms))
        fn = [(unguard(x).s.start, unguard(x).s.n) for x in unguard(st['formulaname']).items]
        if fn != fnames: probs.append('formula names %s, documented %s' % (fn, fnames))
        d = unguard(st['dict'])
        if len(d.e) != len(names): probs.append('dictionary has %d entries for %d statements' % (len(d.e), len(names)))
        for i, sl in enumerate(names):
            r2 = e.call('parser::AdfParser::dict_value', [rp, inp.sub(sl[0], sl[1])])
            if r2.v != 'Some' or r2.f[0] != i: probs.append('dict_value of statement %d = %r' % (i, r2))
    if probs:
        m = sat_model(e, True)
        report(e, 'parser-differs', what='file level: ' + '; '.join(probs[:3]), text=text_of(m, bs), level='file')
    return {'L': L, 'accepted': ok}


def same_slice(e, inp, a, b):
    if a[1] != b[1]: return False
    return e.branch(e.and_all([byte_eq(inp.at(a[0] + k), inp.at(b[0] + k)) for k in range(a[1])]))

# ------------------------------------------------------------------ native side

def ref_concrete(text, level):
    try:
        if level == 'formula':
            j, f = T.Reader(text).formula(0)
            return {'ok': True, 'consumed': j, 'tree': dbg(f)}
        names, acs, facts = T.parse(text)
        return {'ok': True, 'names': names, 'formulas': [dbg(f[2]) for f in facts if f[0] == 'ac'], 'formula_names': [f[1] for f in facts if f[0] == 'ac']}
    except T.ParseError:
        return {'ok': False}


def dbg(f):
    """the crate's Debug rendering of a Formula"""
    k = f[0]
    if k == 'top': return 'Const(T)'
    if k == 'bot': return 'Const(B)'
    if k == 'atom': return f[1]
    if k == 'neg': return 'not(%s)' % dbg(f[1])
    return '%s(%s,%s)' % (k, dbg(f[1]), dbg(f[2]))


def parse_dbg(s_, names):
    """the crate's Debug rendering of a Formula back into a tree; atoms are raw labels, read against the known statement names (longest first)"""
    by_len = sorted(set(names), key=len, reverse=True)
    def rd(i):
        for kw, tag in (('Const(T)', ('top',)), ('Const(B)', ('bot',))):
            if s_.startswith(kw, i): return i + len(kw), tag
        if s_.startswith('not(', i):
            j, f = rd(i + 4)
            if s_[j:j + 1] != ')': raise ValueError(i)
            return j + 1, ('neg', f)
        for op in BINOPS:
            if s_.startswith(op + '(', i):
                try:
                    j, f = rd(i + len(op) + 1)
                    if s_[j:j + 1] != ',': raise ValueError(i)
                    k, g = rd(j + 1)
                    if s_[k:k + 1] != ')': raise ValueError(i)
                    return k + 1, (op, f, g)
                except ValueError: pass
        for nm in by_len:
            if s_.startswith(nm, i): return i + len(nm), ('atom', nm)
        raise ValueError(i)
    j, t = rd(0)
    if j != len(s_): raise ValueError(j)
    return t

def same_function(got_dbg, want_dbg, names):
    if got_dbg == want_dbg: return True
    try: t1, t2 = parse_dbg(got_dbg, names), parse_dbg(want_dbg, names)
    except (ValueError, RecursionError): return False
    at = []; tree_atoms(t1, at); tree_atoms(t2, at); at = sorted(set(at))
    if len(at) > 12: return False
    for asg in range(1 << len(at)):
        val = lambda a: bool((asg >> at.index(a)) & 1)
        if tree_eval(t1, val) != tree_eval(t2, val): return False
    return True


def judge(out, text, level):
    exp = ref_concrete(text, level)
    if 'ok' not in out: return ['native run failed / panicked: %s' % str(out)[:200]]
    if out['ok'] != exp['ok']: return ['crate %s %r, documented grammar %s' % ('accepts' if out['ok'] else 'rejects', text, 'accepts' if exp['ok'] else 'rejects')]
    if not out['ok']: return []
    probs = []
    names = list(exp.get('names', [])) + list(exp.get('formula_names', []))
    if level == 'formula':
        try:
            at = []; tree_atoms(T.Reader(text).formula(0)[1], at); names = at
        except T.ParseError: pass
    for k in exp:
        if k == 'ok' or out.get(k) == exp[k]: continue
        # the stored formula has to denote the written function (labels verbatim); its shape is the crate's business
        if k == 'tree' and same_function(out.get(k) or '', exp[k], names): continue
        if k == 'formulas' and isinstance(out.get(k), list) and len(out[k]) == len(exp[k]) and all(same_function(x, y, names) for x, y in zip(out[k], exp[k])): continue
        probs.append('%s: crate %s, documented %s' % (k, out.get(k), exp[k]))
    return probs


def replay(ctx, v):
    out = ctx.native().call({'cmd': 'parse', 'text': v['text'], 'level': v['level']})
    probs = judge(out, v['text'], v['level'])
    return ('reproduced', {'native_output': out, 'problems': probs}) if probs else ('not-reproduced', out)

def key(v): return '%s:%s:%s' % (v['kind'], v['level'], v['text'])


def validate(ctx, tier, seed):
    """concrete texts (repository test inputs, seeded well-formed texts and mutations of them) through native, mirse and the reference"""
    from .semjobs import repo_test_instances
    rng = random.Random(seed * 61 + 3)
    eng = ctx.engines[ctx.engine()]; nat = ctx.native()
    texts = [t for t in repo_test_instances() if len(t) < 120][:6]
    for i in range(10 if tier == 'quick' else 40):
        names, acs = T.rand_adf(rng, rng.randint(1, 3), 2, quoted=0.2)
        t = T.render(names, acs, rng, layout=rng.random() < 0.5)
        texts.append(t)
        if t:
            k = rng.randrange(len(t)); texts.append(t[:k] + rng.choice(['', '(', ')', ',', '.', 'x', ' ']) + t[k + 1:])
    mism = []; cnt = 0
    for t in texts:
        out = nat.call({'cmd': 'parse', 'text': t, 'level': 'file'})
        eng.reset_path([]); eng.path_violations = []
        try:
            inp = SymStr(list(t.encode()))
            parser = eng.call('<parser::AdfParser as Default>::default', [])
            clos = eng.call('parser::AdfParser::parse', [Ref([parser], 0)])
            r = eng.call_value(clos, [inp])
            mine = {'ok': r.v == 'Ok'}
            if mine['ok']:
                st = {k: parser.f[i] for i, k in enumerate(eng.structs['AdfParser'])}
                mine['names'] = [bytes(unguard(x).s.bytes()).decode() for x in unguard(st['namelist']).items]
        except Exception as ex:
            mism.append('mirse failed on %r: %r' % (t, ex)); continue
        if mine['ok'] != out.get('ok') or (mine['ok'] and mine['names'] != out.get('names')):
            mism.append('%r: native %s / mirse %s' % (t, str(out)[:200], mine))
        if judge(out, t, 'file'): ctx.notes.append('validation text on which crate and reference differ natively: %r %s' % (t, judge(out, t, 'file')[:1]))
        cnt += 1
    return cnt, mism


def spec(ctx, tier, seed):
    ctx.engine()
    jobs = []; mod = 'harness.c08'
    LF = range(1, 8) if tier == 'quick' else range(1, 10)
    for L in LF: jobs.append(Job('formula-L%d' % L, mod, 'formula_job', {'L': L}, stop_after_violations=40))
    # every connective with symbolic arguments / layout / nesting: a fixed operator prefix followed by symbolic bytes
    k = 5 if tier == 'quick' else 7
    for op in T.BINOPS + ['neg', 'c']:
        jobs.append(Job('formula-%s(+%d' % (op, k), mod, 'formula_job', {'L': len(op) + 1 + k, 'prefix': op + '('}, stop_after_violations=40))
    jobs.append(Job('file-ac(+%d' % (k + 2), mod, 'file_job', {'L': 3 + k + 2, 'prefix': 'ac('}, stop_after_violations=40))
    jobs.append(Job('file-s(+%d' % (k + 2), mod, 'file_job', {'L': 2 + k + 2, 'prefix': 's('}, stop_after_violations=40))
    jobs.append(Job('file-shapes', mod, 'file_job', {'shapes': True}, stop_after_violations=40))
    for L in (range(5, 9) if tier == 'quick' else range(5, 11)):
        jobs.append(Job('file-L%d' % L, mod, 'file_job', {'L': L}, stop_after_violations=40))
    # longer files: a fixed well-formed first fact, the rest symbolic (second fact, duplicates, trailing garbage)
    for pre, extra in (('s(a).', 6 if tier == 'quick' else 8), ('ac(a,b).', 6 if tier == 'quick' else 8)):
        jobs.append(Job('file-%s+%d' % (pre, extra), mod, 'file_job', {'L': len(pre) + extra, 'prefix': pre}, stop_after_violations=40))
    jobs.append(Job('canary', mod, 'formula_job', {'L': 3, 'canary': True}, stop_after_violations=1, canary=True))
    return {'jobs': jobs, 'level': 'model_checking', 'allowed_status': ('ok', 'panic'),
            'assumptions': ASSUMPTIONS + ['nom combinators (tag, take_until, alphanumeric1, multispace0, alt, many1, all_consuming, value, preceded, terminated, delimited, separated_pair) '
                                          'are models of their documented contracts (validated differentially on concrete texts every run)', 'inputs are valid UTF-8 over the stated alphabet'],
            'bounds': 'formula level: all byte strings of length <= %d over the %d-symbol alphabet %r plus the two-byte character e-acute; file level: all strings of length 5..%d, plus a fixed first fact followed by %d symbolic bytes; every connective prefix op( / ac( / s( followed by 5-7 (quick) or 7-9 (thorough) symbolic bytes; 125 two-fact files ac(a,OP(X,Y)).ac(b,neg(Y)). with connective and operands (statements, constants, a negation) chosen by the solver'
                      % (max(LF), len(ALPHABET), ALPHABET, 8 if tier == 'quick' else 10, 6 if tier == 'quick' else 8),
            'outside': 'longer inputs; bytes outside the alphabet (other letters/digits behave like b, z, 1; other non-ASCII characters like e-acute); nom internals; the CLI / web halves of the statement (exit status, parse_only = Error)'}
