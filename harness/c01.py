"""C01 - see DESIGN.md section 5"""
from . import semprops, semjobs
# naive Adf; the biodivine-based Adf; the naive Adf obtained through hybrid_step() / hybrid_step_opt(false)
spec, validate = semprops.make(['grounded', 'bio/grounded', 'hyb/grounded', 'hybraw/grounded', 'hybrew/grounded'], 'grounded', backend_kinds=('grounded',))
replay = semprops.replay
key = semprops.key
