"""C01 - see DESIGN.md section 5"""
from . import semprops, semjobs
spec, validate = semprops.make(['grounded'], 'grounded', backend_kinds=('grounded',))
replay = semprops.replay
key = semprops.key
