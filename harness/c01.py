"""C01 - see DESIGN.md section 5"""
from . import semprops, semjobs
spec, validate = semprops.make(['grounded'], 'grounded')
replay = semjobs.replay
key = semjobs.key
