"""C05 - nogood-learning search exact and terminating for every heuristic; see DESIGN.md section 5"""
from . import semprops, semjobs
PROCS = ['nogood:Simple', 'nogood:MinModMinPathsMaxVarImp', 'nogood:MinModMaxVarImpMinPaths', 'nogood:Rand', 'nogood:Custom',
         'nogood_channel:Simple', 'twoval_channel:Simple', 'twoval_channel:Custom',
         'hyb/nogood:MinModMinPathsMaxVarImp', 'hyb/twoval_channel:Simple']        # the search on a bridged Adf (what the CLI's default mode runs)
XP = {'nogood:Rand': {'max_draws': 40, 'skip_n4': True, 'branching': 3}, 'nogood:Custom': {'max_custom_calls': 20, 'skip_n4': True, 'branching': 3},
      'twoval_channel:Custom': {'max_custom_calls': 20, 'skip_n4': True, 'branching': 2}}
spec0, validate = semprops.make(PROCS, 'nogood:Simple', extra_params=XP, backend_kinds=('stable_nogood', 'models_nogood'))
def spec(ctx, tier, seed):
    s = spec0(ctx, tier, seed)
    s['bounds'] += (' Termination: a path that exceeds the MIR step fuel, 40 random draws or 20 custom-heuristic calls is a non-termination candidate '
                    'and is confirmed natively under a wall-clock cap. Rand: every draw is a fresh symbolic 64-bit value / coin; Custom: a model heuristic '
                    'that returns any undecided statement with any truth value (all choices explored).')
    for j in s['jobs']: j.max_steps = 400000
    return s
replay = semprops.replay
key = semprops.key
