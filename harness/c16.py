"""C16 - web service kernels: graph pictures and the database round trip (DESIGN.md section 5/C16, as built: 10.2)

Claimed for the two pure kernels that carry the library's answers through the service; HTTP, actix, async task bookkeeping, MongoDB,
timeouts and the handler closures are outside (MANIFEST level_note).  The engine runs the MIR of the server binary merged with the
library's MIR:
 (i)  SimplifiedAdf::from(Adf) -> Adf::from(SimplifiedAdf) (strings as stored in the database) reproduces nodes, roots and names index by
      index and the rebuilt object answers every strategy like a fresh one;
 (ii) DoubleLabeledGraph::from_adf_and_ac on the ADF / on every model of each strategy: node set = nodes reachable from the roots, lo/hi
      edges = node table, labels = statement names, and following edges from the node labelled root-for-s evaluates s's acceptance
      condition under every assignment that agrees with the shown model (decided by z3 against the submitted truth table)."""
import json, random
import z3
from mirse.engine import *
from mirse.hlib import *
from mirse.models import unguard
from mirse.models_misc import new_rng_cell
from mirse.runner import Job
from vlib import build
from . import adflib as A, semjobs
from .bddprops import ASSUMPTIONS

STRATEGIES = ['grounded', 'complete', 'stable', 'heu_a', 'heu_b', 'nogood:Simple']      # Ground, Complete, Stable, StableCountingA/B, StableNogood
NAMES = ['a', 'sec1.2', 'c$d', 'x y']      # plain, dotted, with a dollar sign, with a blank (quoted labels may contain anything but the quote)


def var_container(e, names):
    nm = CellObj(CellObj(VecObj([StrBuf(x) for x in names]), 'rwlock'), 'arc')
    mp = MapObj(); mp.e = [[StrBuf(x), [i]] for i, x in enumerate(names)]
    return Struct([nm, CellObj(CellObj(mp, 'rwlock'), 'arc')])


def named_adf(e, tabs, n):
    plain, _, bdd0 = A.make_adf(e, tabs, n)
    # as the native replay: (names, Bdd::from(node list), roots) through the public constructors
    nodes = VecObj([e.copyval(x) for x in bdd_nodes(e, bdd0)])
    nb = e.call('<obdd::Bdd as From<Vec<bdd::BddNode>>>::from', [nodes])
    acs = VecObj([e.copyval(x) for x in plain.f[e.field('Adf', 'ac')].items])
    adf = e.call('<adf_bdd::adf::Adf as From<(VarContainer, Bdd, Vec<Term>)>>::from', [Struct([var_container(e, NAMES[:n]), nb, acs])])
    return adf, Ref([adf], 0), adf.f[e.field('Adf', 'bdd')]


def sval(x):
    x = unguard(x)
    if isinstance(x, StrBuf): x = x.s
    if hasattr(x, 'bytes') and hasattr(x, 'start'):      # a slice of a submitted text (models_nom.SymStr)
        bs = x.bytes()
        if not any(is_sym(b) for b in bs): return bytes(bs).decode()
    return x


def read_graph(e, g):
    """DoubleLabeledGraph struct -> python dicts (strings concrete)"""
    names = e.structs['DoubleLabeledGraph']
    f = {k: g.f[i] for i, k in enumerate(names)}
    node_labels = {sval(k): sval(v[0]) for k, v in f['node_labels'].e}
    roots = {sval(k): [sval(x) for x in v[0].items] for k, v in f['tree_root_labels'].e}
    lo = [(sval(p.f[0]), sval(p.f[1])) for p in f['lo_edges'].items]
    hi = [(sval(p.f[0]), sval(p.f[1])) for p in f['hi_edges'].items]
    return node_labels, roots, lo, hi


def judge_graph(node_labels, roots, lo, hi, nodes, ac, names):
    """structural part, on concrete data (shared by the symbolic run - after the path fixed all handles - and the native replay)"""
    probs = []
    reach = set(); todo = list(ac)
    while todo:
        t = todo.pop()
        if t in reach: continue
        reach.add(t)
        if t > 1: todo += [nodes[t][1], nodes[t][2]]
    if set(node_labels) != set(str(t) for t in reach): probs.append('node set %s, reachable from the roots %s' % (sorted(node_labels), sorted(reach)))
    for t in reach:
        want = 'BOT' if t == 0 else 'TOP' if t == 1 else names[nodes[t][0]]
        if node_labels.get(str(t)) != want: probs.append('node %d labelled %r, expected %r' % (t, node_labels.get(str(t)), want))
    for edges, k, nm in ((lo, 1, 'lo'), (hi, 2, 'hi')):
        want = sorted((str(t), str(nodes[t][k])) for t in reach if t > 1)
        if sorted(edges) != want: probs.append('%s edges %s, node table says %s' % (nm, sorted(edges), want))
    want_roots = {str(t): [] for t in reach}
    for s, t in enumerate(ac): want_roots.setdefault(str(t), []).append(names[s])
    if {k: sorted(v) for k, v in roots.items()} != {k: sorted(v) for k, v in want_roots.items()}: probs.append('root labels %s, expected %s' % (roots, want_roots))
    return probs


def follow(node_labels, roots, lo, hi, names, s, asg):
    """evaluate statement s by following the picture only (no access to the node table)"""
    start = [k for k, v in roots.items() if names[s] in v]
    if len(start) != 1: return None
    cur = start[0]; lo_d = dict(lo); hi_d = dict(hi); fuel = len(node_labels) + 2
    while node_labels.get(cur) not in ('TOP', 'BOT'):
        fuel -= 1
        if fuel < 0 or cur not in node_labels or node_labels[cur] not in names: return None
        v = names.index(node_labels[cur])
        cur = (hi_d if (asg >> v) & 1 else lo_d).get(cur)
    return node_labels[cur] == 'TOP'


def graph_job(e, p):
    n = p['n']; which = p['which']; canary = p.get('canary')
    tabs = A.family_tabs(n, p['fam']); names = NAMES[:n]
    def case(m): return {'n': n, 'tabs': tables_from_model(m, [[zb(b) for b in t] for t in tabs]), 'which': which, 'names': names}
    def on_panic(e_, msg):
        m = sat_model(e_, True)
        if m is not None: report(e_, 'panic', what='graph construction panics: %s' % msg[:200], case=case(m))
    e.hooks['on_panic'] = on_panic
    adf, ra, bdd = named_adf(e, tabs, n)
    if which == 'none': models = [None]
    else: models = semjobs.run_proc(e, which, ra, adf)[0]
    nodes_raw = bdd_nodes(e, bdd)
    count = 0
    for mdl in models:
        arg = NONE() if mdl is None else Some(Ref([mdl], 0))
        g = e.call('double_labeled_graph::DoubleLabeledGraph::from_adf_and_ac', [ra, arg])
        acv = ivec(e, mdl if mdl is not None else adf.f[e.field('Adf', 'ac')])
        nodes = []
        for nd in nodes_raw:
            nodes.append(tuple(e.concretize(x) if is_sym(x) else x for x in (nd.f[0].f[0], nd.f[1].f[0], nd.f[2].f[0])))
        gl = read_graph(e, g)
        probs = judge_graph(*gl, nodes, acv, names)
        if canary: probs.append('canary')
        # semantic part: the picture evaluates the acceptance condition under every assignment that agrees with the shown model
        conds = []
        for s in range(n):
            for asg in range(1 << n):
                if any(acv[v] <= 1 and ((asg >> v) & 1) != acv[v] for v in range(n)): continue
                r = follow(*gl, names, s, asg)
                if r is None: probs.append('picture cannot be followed from the root of %s' % names[s]); break
                conds.append(differs(r, zb(tabs[s][asg])))
        m = sat_model(e, True) if probs else sat_model(e, e.or_all(conds))
        if m is not None:
            report(e, 'wrong-graph', what='%s; picture of %s model %s' % ('; '.join(probs[:3]) or 'following the edges does not evaluate the acceptance condition', which, acv), case=case(m))
        count += 1
    return {'which': which, 'graphs': count, 'nodes': len(nodes_raw)}


def db_job(e, p):
    n = p['n']; final = p['final']; hist = p.get('history', []); canary = p.get('canary')
    tabs = A.family_tabs(n, p['fam']); names = NAMES[:n]
    def case(m): return {'n': n, 'tabs': tables_from_model(m, [[zb(b) for b in t] for t in tabs]), 'final': final, 'history': hist, 'names': names}
    def on_panic(e_, msg):
        m = sat_model(e_, True)
        if m is not None: report(e_, 'panic', what='database round trip panics: %s' % msg[:200], case=case(m))
    e.hooks['on_panic'] = on_panic
    adf, ra, bdd = named_adf(e, tabs, n)
    for c in hist: semjobs.run_proc(e, c, ra, adf)
    before = [(nd.f[0].f[0], nd.f[1].f[0], nd.f[2].f[0]) for nd in bdd_nodes(e, bdd)]
    ac_before = [tv(x) for x in adf.f[e.field('Adf', 'ac')].items]
    simp = e.call('<adf::SimplifiedAdf as From<adf_bdd::adf::Adf>>::from', [adf])
    back = e.call('<adf_bdd::adf::Adf as From<adf::SimplifiedAdf>>::from', [simp])
    nb = back.f[e.field('Adf', 'bdd')]
    after = [(nd.f[0].f[0], nd.f[1].f[0], nd.f[2].f[0]) for nd in bdd_nodes(e, nb)]
    ac_after = [tv(x) for x in back.f[e.field('Adf', 'ac')].items]
    def same(a, b): return (is_sym(a) and is_sym(b) and a.eq(b)) or (not is_sym(a) and not is_sym(b) and a == b) or (sat_model(e, a != b) is None if (is_sym(a) or is_sym(b)) else False)
    probs = []
    if len(before) != len(after) or any(not same(x, y) for p_, q in zip(before, after) for x, y in zip(p_, q)): probs.append('node list not reproduced index by index')
    if len(ac_before) != len(ac_after) or any(not same(x, y) for x, y in zip(ac_before, ac_after)): probs.append('root handles changed')
    vc = back.f[e.field('Adf', 'ordering')]
    for i, nm in enumerate(names):
        r = e.call('adf::VarContainer::name', [Ref([vc], 0), T(i)])
        if r.v != 'Some' or sval(r.f[0]) != nm: probs.append('name of statement %d is %r after the round trip' % (i, r))
        r = e.call('adf::VarContainer::variable', [Ref([vc], 0), nm])
        if r.v != 'Some' or tv(r.f[0]) != i: probs.append('variable of %s is %r after the round trip' % (nm, r))
    rb = Ref([back], 0)
    got = [A.classes(e, v) for v in semjobs.run_proc(e, final, rb, back)[0]]
    adf2, ra2, bdd2 = named_adf(e, tabs, n)
    fresh = [A.classes(e, v) for v in semjobs.run_proc(e, final, ra2, adf2)[0]]
    if canary: fresh = fresh + ['canary']
    if sorted(got) != sorted(fresh): probs.append('%s on the rebuilt object = %s, fresh = %s' % (final, got, fresh))
    wrong = semjobs.answer_mismatch(e, p['fam'], tabs, n, final, got)
    if wrong is not None:
        report(e, 'db-roundtrip', what='%s on the object rebuilt from the database = %s, the definition gives %s' % (final, got, wrong[2]), case=case(wrong[0]), expected=wrong[2])
    if probs:
        m = sat_model(e, True); report(e, 'db-roundtrip', what='; '.join(probs[:3]), case=case(m))
    return {'final': final, 'history': hist, 'nodes': len(after), 'answer': got}

def db_names_job(e, p):
    """the database round trip of the statement dictionary for every number of statements 1..N (acceptance conditions: the statement itself)"""
    N = 1 + e.choose(p['N'], 'statements')
    names = ['%s%s' % (chr(ord('a') + (i * 7) % 26), '' if i < 26 else str(i)) for i in range(N)]
    bdd, r = new_bdd(e)
    acs = [e.call('obdd::Bdd::variable', [r, T(v)]) for v in range(N)]
    fields = {'ordering': var_container(e, names), 'bdd': bdd, 'ac': VecObj(acs), 'rng': new_rng_cell()}
    adf = Struct([fields[k] for k in e.structs['Adf']])
    def on_panic(e_, msg): report(e_, 'panic', what='database round trip panics: %s' % msg[:200], case={'vars_only': True, 'n': N, 'names': names, 'tabs': [], 'final': 'grounded', 'history': []})
    e.hooks['on_panic'] = on_panic
    simp = e.call('<adf::SimplifiedAdf as From<adf_bdd::adf::Adf>>::from', [adf])
    back = e.call('<adf_bdd::adf::Adf as From<adf::SimplifiedAdf>>::from', [simp])
    vc = back.f[e.field('Adf', 'ordering')]
    probs = []
    for i, nm in enumerate(names):
        rr = e.call('adf::VarContainer::name', [Ref([vc], 0), T(i)])
        if rr.v != 'Some' or sval(rr.f[0]) != nm: probs.append('statement %d is called %s after the round trip, submitted %s' % (i, sval(rr.f[0]) if rr.v == 'Some' else None, nm))
        rr = e.call('adf::VarContainer::variable', [Ref([vc], 0), nm])
        if rr.v != 'Some' or tv(rr.f[0]) != i: probs.append('variable of %s is %r after the round trip' % (nm, rr))
    if p.get('canary'): probs.append('canary')
    if probs: report(e, 'db-roundtrip', what='; '.join(probs[:3]), case={'vars_only': True, 'n': N, 'names': names, 'tabs': [], 'final': 'grounded', 'history': []})
    return {'statements': N}


# ------------------------------------------------------------------ native side

def native(ctx): return ctx.native(extra=('server_dto',))

def judge_native_graph(out, case):
    if 'graphs' not in out: return ['native run failed: %s' % str(out)[:300]]
    probs = []
    nodes = [(int(v) if int(v) < 2**63 else int(v), lo, hi) for v, lo, hi in out['nodes']]
    names = case['names']; n = case['n']
    for g in out['graphs']:
        gr = g['graph']
        gl = (gr['node_labels'], gr['tree_root_labels'], [tuple(x) for x in gr['lo_edges']], [tuple(x) for x in gr['hi_edges']])
        probs += judge_graph(*gl, nodes, g['ac'], names)
        for s in range(n):
            for asg in range(1 << n):
                if any(g['ac'][v] <= 1 and ((asg >> v) & 1) != g['ac'][v] for v in range(n)): continue
                r = follow(*gl, names, s, asg)
                if r is None or r != bool(case['tabs'][s][asg]): probs.append('picture of model %s: statement %s under assignment %d evaluates to %s, condition is %d' % (g['ac'], names[s], asg, r, case['tabs'][s][asg])); break
    return probs

def replay(ctx, v):
    case = v['case']
    if 'handler' in case:
        from . import c16h
        return c16h.replay(ctx, v)
    if v['kind'] == 'db-roundtrip' or 'final' in case:
        out = native(ctx).call(dict(case, cmd='db_roundtrip'), timeout=30)
        if 'after' not in out: return 'reproduced', out
        probs = []
        if out['nodes_before'] != out['nodes_after']: probs.append('node list not reproduced')
        if out['ac_before'] != out['ac_after']: probs.append('roots changed')
        if out['names_before'] != out['names_after'] or not out['name_lookup_ok']: probs.append('names changed')
        if sorted(out['after']) != sorted(out['fresh']): probs.append('answer %s, fresh %s' % (out['after'], out['fresh']))
        if case.get('tabs'):
            exp = semjobs.py_oracle(semjobs.oracle_kind(case['final']), case['tabs'], case['n'])
            if sorted(out['after']) != sorted(exp): probs.append('answer after the database round trip %s, the definition gives %s' % (out['after'], exp))
        return ('reproduced', {'problems': probs, 'native_output': out}) if probs else ('not-reproduced', out)
    out = native(ctx).call(dict(case, cmd='graph'), timeout=30)
    probs = judge_native_graph(out, case)
    return ('reproduced', {'problems': probs[:5], 'native_output': out}) if probs else ('not-reproduced', out)

def key(v):
    c = v['case']
    if 'handler' in c:
        from . import c16h
        return c16h.key(v)
    return '%s:%s' % (v['kind'], json.dumps([c['n'], c['tabs'], c.get('which'), c.get('final'), c.get('history'), c.get('vars_only')]))


def engine_key(ctx):
    k = ctx.engine_multi('server', [('adf_bdd', '--lib', build.DEFAULT_FEATURES), ('adf-bdd-server', '--bin adf-bdd-server', ())],
                         src_globs=('lib/src/**/*.rs', 'server/src/**/*.rs'))
    eng = ctx.engines[k]
    if not getattr(eng, '_nom_models', False):
        from mirse import models_nom
        models_nom.install(eng); eng._nom_models = True        # the handler closures parse the submitted text
    return k


def validate(ctx, tier, seed):
    rng = random.Random(seed * 53 + 7)
    eng = ctx.engines[engine_key(ctx)]; nat = native(ctx)
    mism = []; cnt = 0
    for i in range(8 if tier == 'quick' else 30):
        n = rng.choice([2, 3, 3])
        case = {'n': n, 'tabs': A.rand_tabs(rng, n), 'which': rng.choice(['none'] + STRATEGIES[:3]), 'names': NAMES[:n]}
        out = nat.call(dict(case, cmd='graph'), timeout=30)
        eng.reset_path([]); eng.path_violations = []
        try:
            adf, ra, bdd = named_adf(eng, [[bool(b) for b in t] for t in case['tabs']], n)
            models = [None] if case['which'] == 'none' else semjobs.run_proc(eng, case['which'], ra, adf)[0]
            mine = []
            for mdl in models:
                g = eng.call('double_labeled_graph::DoubleLabeledGraph::from_adf_and_ac', [ra, NONE() if mdl is None else Some(Ref([mdl], 0))])
                nl, roots, lo, hi = read_graph(eng, g)
                mine.append({'node_labels': nl, 'tree_root_labels': {k: sorted(v) for k, v in roots.items()}, 'lo_edges': sorted(map(list, lo)), 'hi_edges': sorted(map(list, hi))})
        except Exception as ex:
            mism.append('mirse failed on %s: %r' % (json.dumps(case), ex)); continue
        theirs = [{'node_labels': g['graph']['node_labels'], 'tree_root_labels': {k: sorted(v) for k, v in g['graph']['tree_root_labels'].items()},
                   'lo_edges': sorted(g['graph']['lo_edges']), 'hi_edges': sorted(g['graph']['hi_edges'])} for g in out.get('graphs', [])]
        if mine != theirs: mism.append('%s: native %s / mirse %s' % (json.dumps(case), str(theirs)[:300], str(mine)[:300]))
        cnt += 1
        # database round trip
        case2 = {'n': n, 'tabs': case['tabs'], 'final': rng.choice(STRATEGIES), 'history': [], 'names': NAMES[:n]}
        out2 = nat.call(dict(case2, cmd='db_roundtrip'), timeout=30)
        eng.reset_path([]); eng.path_violations = []
        try:
            adf, ra, bdd = named_adf(eng, [[bool(b) for b in t] for t in case2['tabs']], n)
            simp = eng.call('<adf::SimplifiedAdf as From<adf_bdd::adf::Adf>>::from', [adf])
            stored = {'ac': [sval(x) for x in simp.f[eng.structs['SimplifiedAdf'].index('ac')].items]}
            back = eng.call('<adf_bdd::adf::Adf as From<adf::SimplifiedAdf>>::from', [simp])
            got = [A.classes(eng, v) for v in semjobs.run_proc(eng, case2['final'], Ref([back], 0), back)[0]]
        except Exception as ex:
            mism.append('mirse failed on db round trip %s: %r' % (json.dumps(case2), ex)); continue
        if got != out2.get('after') or stored['ac'] != out2.get('stored', {}).get('ac'):
            mism.append('db round trip %s: native %s / mirse %s %s' % (json.dumps(case2), str(out2)[:300], got, stored))
        cnt += 1
    from . import c16h
    c2, m2 = c16h.validate(ctx, eng, nat, tier, seed)
    return cnt + c2, mism + m2


def spec(ctx, tier, seed):
    k = engine_key(ctx)
    rng = random.Random(seed * 59 + 1)
    jobs = []; mod = 'harness.c16'
    for which in ['none'] + STRATEGIES:
        jobs.append(Job('graph-n2-%s' % which, mod, 'graph_job', {'n': 2, 'fam': ['sym', 'sym'], 'which': which}, engine_key=k, stop_after_violations=40))
    for fin in STRATEGIES:
        jobs.append(Job('db-n2-%s' % fin, mod, 'db_job', {'n': 2, 'fam': ['sym', 'sym'], 'final': fin, 'history': [rng.choice(STRATEGIES)] if rng.random() < 0.5 else []},
                        engine_key=k, stop_after_violations=40))
    jobs.append(Job('db-names-1..16', mod, 'db_names_job', {'N': 16 if tier == 'quick' else 40}, engine_key=k, stop_after_violations=40))
    fams = semjobs.families(3, 1, rng, 2 if tier == 'quick' else 6)
    for i, fam in enumerate(fams):
        which = (['none'] + STRATEGIES)[i % 7]
        jobs.append(Job('graph-n3-%d-%s' % (i, which), mod, 'graph_job', {'n': 3, 'fam': fam, 'which': which}, engine_key=k, stop_after_violations=40))
        jobs.append(Job('graph-n3-%d-complete' % i, mod, 'graph_job', {'n': 3, 'fam': fam, 'which': 'complete'}, engine_key=k, stop_after_violations=40))
        jobs.append(Job('db-n3-%d' % i, mod, 'db_job', {'n': 3, 'fam': fam, 'final': STRATEGIES[i % 6], 'history': []}, engine_key=k, stop_after_violations=40))
    from . import c16h
    jobs += c16h.jobs(k, tier, rng)
    jobs.append(Job('canary', mod, 'graph_job', {'n': 2, 'fam': ['sym', 'sym'], 'which': 'none', 'canary': True}, engine_key=k, stop_after_violations=1, canary=True))
    return {'jobs': jobs, 'level': 'model_checking', 'allowed_status': ('ok', 'panic', 'bound'),
            'assumptions': ASSUMPTIONS + ['Arc/RwLock are single-threaded cells', 'usize::to_string / str::parse are exact on concrete numbers',
                                          'native replay compiles double_labeled_graph.rs, the database DTOs and the bodies of the two spawn_blocking closures of server/src/adf.rs from their source text into the replay crate',
                                          'web::Data / Arc / Mutex are single-threaded cells; nom under models (as C08); Hybrid parsing on the biodivine contract model'],
            'bounds': 'all 256 two-statement ADFs and seeded 3-statement families; pictures of the ADF itself and of every model of each of the six strategies; database round trip '
                      '(SimplifiedAdf) followed by each strategy; the statement dictionary alone for every number of statements 1..16 (thorough: 40). Handler closures: submitted texts whose '
                      'conditions are symbolic (normal forms with c(v)/c(f) bytes as solver variables) for all two-statement ADFs under Naive parsing (plain DNF) and Hybrid parsing (one seed-chosen '
                      'other form; thorough: four forms x both strategies) and a three-statement family (thorough: four, both strategies), each followed by all six solving strategies; 12 malformed '
                      'texts and every text s(a).ac(a, + 3 (4) symbolic bytes; running-task report on all sets of 2 (3) entries over two users, two names, three tasks',
            'outside': 'HTTP / actix, MongoDB (the stored form is handed from the parse closure to the solve closure directly), tokio timeout / spawn and the async continuations that write '
                       'results into the database, has_been_solved, authentication (C17). Executed since the third session and no longer outside: the two synchronous closures handed to '
                       'spawn_blocking (parse + compile by either parsing strategy + picture + stored form; rebuild + strategy dispatch + pictures; running-task bookkeeping), see harness/c16h.py'}
