"""C15 - CLI output is faithful in every library mode (DESIGN.md section 5/C15, section 10.6)

The front end's `App::run` (bin/src/main.rs) is executed from its MIR on an `App` value whose semantics flags are *symbolic* Booleans: the
solver decides which flag combinations reach which branch, every feasible combination is one path, and on every path the text written to
stdout (real `print!` of the real `PrintableInterpretation`, see mirse/models_cli.py) is compared with what the definitions prescribe for
the input file.  clap's argument parsing itself is not executed: the harness constructs the parsed `App` (the flag groups of the derive -
--lx/--an exclusive - are assumed).  The library modes biodivine / hybrid run on the contract model of biodivine_lib_bdd (mirse/models_bio.py).

What the property demands is read as follows (nothing more):
  * well-formed file: no panic (exit status 0); malformed file: panic (non-zero exit status) and nothing on stdout;
  * every output line is `X(name) ...` with X in T/F/u for each statement under its own name (order of statements inside a line free);
  * first the grounded interpretation (--grd), then the complete models (--com) as a set, then - in any order among the procedures - one copy
    of the set of stable models per stable-model flag given (--stm --stmca --stmcb --stmpre --stmng, and one for --stmrew/--stmrew2) and the
    two-valued models for --twoval;
  * a flag documented as "(only hybrid lib-mode)" may be ignored by the other modes; --stmrew and --stmrew2 together may print once or twice.
A flag that is silently ignored although the documentation promises it makes the output differ from the prescribed one; such a
counterexample is attributed to (library mode, flag) by finding the smallest set of ignored flags that explains the output."""
import json, random, itertools, os, re, subprocess, tempfile, hashlib
import z3
from mirse.engine import *
from mirse.hlib import *
from mirse.runner import Job
from . import adftext, adflib as A
from .bddprops import ASSUMPTIONS

SEM_FLAGS = ['grounded', 'complete', 'stable', 'stable_counting_a', 'stable_counting_b', 'stable_pre', 'stable_rew', 'stable_rew2', 'stable_ng', 'two_val']
CLI = {'grounded': '--grd', 'complete': '--com', 'stable': '--stm', 'stable_counting_a': '--stmca', 'stable_counting_b': '--stmcb', 'stable_pre': '--stmpre',
       'stable_rew': '--stmrew', 'stable_rew2': '--stmrew2', 'stable_ng': '--stmng', 'two_val': '--twoval', 'sort_lex': '--lx', 'sort_alphan': '--an'}
ONLY_HYBRID = {'stable_pre', 'stable_rew', 'stable_rew2'}          # documented "(only hybrid lib-mode)"
STABLE_FLAGS = ['stable', 'stable_counting_a', 'stable_counting_b', 'stable_pre', 'stable_ng']

TEXTS = [
    's(a). s(b). ac(a,neg(b)). ac(b,neg(a)).',
    's(b). s(a10). s(a2). ac(a10,c(v)). ac(b,and(a10,neg(a2))). ac(a2,a2).',
    's(x). s(y). s(z). ac(x,or(y,neg(z))). ac(y,x). ac(z,and(x,y)).',
    # four statements whose conditions share sub-diagrams and differ below them (the bridge translates diagram by diagram)
    's(a). s(b). s(c). s(d). ac(a,neg(b)). ac(b,neg(a)). ac(c,and(a,b)). ac(d,and(a,neg(b))).',
    # quoted labels keep their blanks: "a b" and ab are different statements
    's("a b"). s(ab). s(c). ac("a b",c(v)). ac(ab,c(f)). ac(c,neg("a b")).',
]
MALFORMED = ['s(a). s(b). ac(a,neg(b). ac(b,neg(a)).', 's(a) ac(a,a).', 's(a). ac(a,nand(a,a)).']


def oracle(text):
    """-> None for a malformed text, else dict with names and the prescribed sets (each interpretation a dict name -> T/F/u, frozen)"""
    try: names, acs, facts = adftext.parse(text)
    except adftext.ParseError: return None
    n = len(names)
    tabs = [[1 if adftext.evalf(acs[nm], {names[i]: bool((asg >> i) & 1) for i in range(n)}) else 0 for asg in range(1 << n)] for nm in names]
    fr = lambda v: frozenset(zip(names, v))
    return {'names': names, 'grounded': fr(A.py_grounded(tabs, n)), 'complete': sorted(map(fr, A.py_complete(tabs, n)), key=sorted),
            'stable': sorted(map(fr, A.py_stable(tabs, n)), key=sorted), 'models': sorted(map(fr, A.py_models(tabs, n)), key=sorted)}


def parse_line(line, names):
    """X(name) X(name) ... with every statement once; names may contain blanks and brackets, so the line is read against the known names"""
    out = {}; i = 0
    by_len = sorted(names, key=len, reverse=True)
    while i < len(line):
        if line[i] not in 'TFu' or line[i + 1:i + 2] != '(': return None
        for nm in by_len:
            if line.startswith(nm + ') ', i + 2) and nm not in out:
                out[nm] = line[i]; i += 2 + len(nm) + 2; break
        else: return None
    if len(out) != len(names): return None
    return frozenset(out.items())


def explain(stdout, orc, mode, flags, ignored=frozenset()):
    """is stdout what the definitions prescribe for this mode and flag set, if the flags in `ignored` had not been given?  -> None or a complaint"""
    F = {f for f in flags if f not in ignored}
    if not stdout.endswith('\n') and stdout != '': return 'output does not end with a newline'
    lines = stdout.split('\n')[:-1]
    ints = [parse_line(l, orc['names']) for l in lines]
    if any(i is None for i in ints): return 'line %r is not an interpretation of the statements %s' % (lines[[i is None for i in ints].index(True)], orc['names'])
    k = 0
    if 'grounded' in F:
        if not ints or ints[0] != orc['grounded']: return 'the first line is not the grounded interpretation'
        k = 1
    if 'complete' in F:
        c = len(orc['complete'])
        if sorted(ints[k:k + c], key=sorted) != orc['complete']: return 'after the grounded interpretation the complete models do not follow as a set'
        k += c
    rest = sorted(ints[k:], key=sorted)
    lo = hi = 0
    for f in STABLE_FLAGS:
        if f in F:
            hi += 1
            if not (f in ONLY_HYBRID and mode != 'hybrid'): lo += 1
    rew = [f for f in ('stable_rew', 'stable_rew2') if f in F]
    if rew:
        hi += len(rew)
        if mode == 'hybrid': lo += 1
    t = 1 if 'two_val' in F else 0
    S = orc['stable']; M = orc['models']
    for copies in range(lo, hi + 1):
        if rest == sorted(S * copies + M * t, key=sorted): return None
    return 'after grounded/complete, %d lines remain; expected %d..%d copies of the %d stable models%s' % (len(rest), lo, hi, len(S), ' and the %d two-valued models' % len(M) if t else '')


def excusable(f, mode):
    """the documentation itself restricts the flag to the hybrid mode"""
    return f in ONLY_HYBRID and mode != 'hybrid'


def make_app(e, p, sym):
    heu = NONE() if not p.get('heu') else Some(Enum(p['heu'], [], 'Heuristic'))
    vals = dict(input=StrBuf('input.adf'), rust_log=NONE(), implementation=StrBuf(p['mode']), verbose=0, quiet=False,
                sort_lex=p.get('sort') == 'lx', sort_alphan=p.get('sort') == 'an', heu=heu, export=Some(StrBuf(p['export'])) if p.get('export') else NONE(), counter=NONE())
    vals['import'] = False
    for f in SEM_FLAGS: vals[f] = sym[f] if f in sym else bool(p.get('fixed', {}).get(f, False))
    return Struct([vals[f] for f in e.structs['App']])


def cli_job(e, p):
    text = p['text']; mode = p['mode']; canary = p.get('canary')
    sym = {f: z3.Bool('flag_' + f) for f in p['free']}
    app = make_app(e, p, sym)
    e.hooks['files'] = {'input.adf': text}
    if p.get('max_draws') is not None: e.hooks['max_draws'] = p['max_draws']
    orc = oracle(text)
    run = [f for nm, f in e.fns.items() if nm.endswith('::run') and 'bin/src/main.rs' in nm][0]
    def split_flags():
        """flags decided on this path (the code branched on them) / flags the code never looked at"""
        base = dict(p.get('fixed', {})); free = []
        for f, b in sym.items():
            t = sat_model(e, b) is not None; fl = sat_model(e, z3.Not(b)) is not None
            if t and fl: free.append(f)
            else: base[f] = t
        return base, free
    def case(a):
        c = {'text': text, 'mode': mode, 'sort': p.get('sort', 'none'), 'flags': sorted(f for f, v in a.items() if v)}
        if p.get('heu'): c['heu'] = p['heu']
        return c
    panicked = None
    try:
        e.call_mir(run, [Ref([app], 0)])
    except RustPanic as ex:
        panicked = str(ex)
    stdout = ''.join(e.hooks.get('stdout', []))
    if canary: stdout += 'T(a) F(b) \n'
    base, free = split_flags()
    flags = {f for f, v in base.items() if v}
    if orc is None:
        if panicked is None: report(e, 'malformed-accepted', what='malformed input is accepted (exit status 0)', case=case(base), role='malformed:exit')
        if stdout: report(e, 'malformed-output', what='malformed input, yet %r is printed' % stdout[:80], case=case(base), role='malformed:stdout')
    elif panicked is not None:
        report(e, 'panic', what='well-formed input, the CLI panics: %s' % panicked[:200], case=case(base), role='panic:%s' % mode)
    else:
        # the path stands for every value of the flags the code never read; with all of them absent the output must be the prescribed one ...
        why = explain(stdout, orc, mode, flags)
        if why is not None: report(e, 'wrong-output', what=why, case=case(base), stdout=stdout[:400])
        # ... and a flag that is never read cannot have any effect: unless the documentation restricts it to another mode, giving it alone must
        # already show the difference (that single-flag run is the replayed input)
        for f in (free if not flags else []):       # reported once per job: on the path where no decided flag is set
            if not excusable(f, mode):
                report(e, 'ignored-flag', what='%s is never looked at with --lib %s: the output is the same with and without it' % (CLI[f], mode),
                       case={'text': text, 'mode': mode, 'sort': p.get('sort', 'none'), 'flags': [f]}, role='%s:%s' % (mode, f))
    if panicked is not None and orc is not None: raise RustPanic(panicked)
    return {'mode': mode, 'stdout': stdout[:200], 'panicked': panicked is not None}

def export_job(e, p):
    """C14, CLI half: `--export F` must never overwrite an existing file.  The file system is a stub: Path::exists answers with a solver
    variable, File::create / serde_json::to_writer are recorded.  Violation: a create (which truncates) of a path that exists, or a create
    that was not preceded by an existence test of that path answering `no`."""
    text = p['text']
    sym = {f: z3.Bool('flag_' + f) for f in p.get('free', [])}
    app = make_app(e, dict(p, mode=p.get('mode', 'naive')), sym)
    e.hooks['files'] = {'input.adf': text}
    run = [f for nm, f in e.fns.items() if nm.endswith('::run') and 'bin/src/main.rs' in nm][0]
    try: e.call_mir(run, [Ref([app], 0)])
    except RustPanic: pass
    ev = e.hooks.get('fs_events', [])
    absent = set()
    for x in ev:
        if x[0] == 'exists' and x[2] is False: absent.add(x[1])
        if x[0] == 'exists' and x[2] is True: absent.discard(x[1])
        if x[0] == 'create' and (x[1] not in absent or p.get('canary')):
            report(e, 'export-overwrites', what='--export %s: the file %s is created (truncated) although it %s' % (p.get('export'), x[1], 'exists' if any(y[0] == 'exists' and y[1] == x[1] for y in ev) else 'was never tested for existence'),
                   case={'text': text, 'mode': p.get('mode', 'naive'), 'sort': 'none', 'flags': sorted(f for f, b in sym.items() if sat_model(e, b) is not None), 'export_existing': True,
                         'export_arg': p.get('export'), 'created': x[1]}, role='export')
    return {'events': [x[0] for x in ev]}


def replay_export(ctx, v):
    """real binary, real file system: --export onto an existing file must leave it untouched"""
    binp = cli_binary(ctx); case = v['case']
    with tempfile.TemporaryDirectory() as d:
        fn = os.path.join(d, 'input.adf'); open(fn, 'w').write(case['text'])
        # the file that the front end was seen to create exists beforehand; the argument is the name the user typed
        out = os.path.join(d, case.get('created', 'out.json')); os.makedirs(os.path.dirname(out), exist_ok=True); open(out, 'w').write('SENTINEL')
        args = [binp, '--lib', case['mode'], '--export', os.path.join(d, case.get('export_arg') or 'out.json')] + [CLI[f] for f in case['flags']] + [fn]
        r = subprocess.run(args, capture_output=True, text=True, timeout=60, env=dict(os.environ, RUST_LOG='error'))
        after = open(out).read()
    if after != 'SENTINEL': return 'reproduced', {'args': args[1:], 'problems': ['the existing export file was overwritten (now %d bytes)' % len(after)]}
    return 'not-reproduced', {'args': args[1:], 'exit': r.returncode}

# ------------------------------------------------------------------ native side: the real binary

def cli_binary(ctx):
    from vlib import build
    if getattr(ctx, '_cli_bin', None): return ctx._cli_bin
    tdir = os.path.join(build.CACHE, 'target-cli')
    with build.Lock('cli'):
        p = subprocess.run(['cargo', 'build', '--offline', '-p', 'adf-bdd-bin'], cwd=build.REPO, env=dict(build.ENV, CARGO_TARGET_DIR=tdir, RUSTFLAGS='-Awarnings'), capture_output=True, text=True)
        if p.returncode != 0: raise RuntimeError('CLI build failed: ' + p.stderr[-2000:])
        dest = os.path.join(build.CACHE, 'bin', 'adf-bdd-%d' % os.getpid())
        os.makedirs(os.path.dirname(dest), exist_ok=True)
        import shutil; shutil.copyfile(os.path.join(tdir, 'debug', 'adf-bdd'), dest); os.chmod(dest, 0o755)
    ctx._cli_bin = dest
    return dest


def run_native(ctx, case):
    binp = cli_binary(ctx)
    with tempfile.TemporaryDirectory() as d:
        fn = os.path.join(d, 'input.adf'); open(fn, 'w').write(case['text'])
        args = [binp, '--lib', case['mode']] + [CLI[f] for f in case['flags']]
        if case.get('sort') == 'lx': args.append('--lx')
        if case.get('sort') == 'an': args.append('--an')
        if case.get('heu'): args += ['--heu', case['heu']]
        try:
            r = subprocess.run(args + [fn], capture_output=True, text=True, timeout=60, env=dict(os.environ, RUST_LOG='error'))
        except subprocess.TimeoutExpired:
            return {'timeout': True, 'args': args[1:]}
    msg = re.search(r'panicked at [^\n]*\n([^\n]*)', r.stderr)
    return {'exit': r.returncode, 'stdout': r.stdout, 'stderr': (msg.group(0) if msg else r.stderr[:300])[:400], 'args': args[1:]}


def judge_native(out, case):
    """-> list of (kind, role, complaint)"""
    orc = oracle(case['text'])
    if out.get('timeout'): return [('timeout', None, 'the CLI does not terminate within 60 s')]
    if orc is None:
        probs = []
        if out['exit'] == 0: probs.append(('malformed-accepted', 'malformed:exit', 'exit status 0 on malformed input'))
        if out['stdout']: probs.append(('malformed-output', 'malformed:stdout', 'prints %r on malformed input' % out['stdout'][:80]))
        return probs
    if out['exit'] != 0: return [('panic', 'panic:%s' % case['mode'], 'exit status %d on well-formed input: %s' % (out['exit'], out['stderr'][-200:]))]
    why = explain(out['stdout'], orc, case['mode'], set(case['flags']))
    if why is None: return []
    if len(case['flags']) == 1 and out['stdout'] == '':
        return [('ignored-flag', '%s:%s' % (case['mode'], case['flags'][0]), '%s alone prints nothing with --lib %s although %s' % (CLI[case['flags'][0]], case['mode'], why))]
    return [('wrong-output', None, why)]


def replay(ctx, v):
    out = run_native(ctx, v['case'])
    probs = judge_native(out, v['case'])
    mine = [pr for pr in probs if pr[0] == v['kind'] and (v.get('role') is None or pr[1] == v.get('role'))]
    if mine: return 'reproduced', {'native_output': out, 'problems': [pr[2] for pr in mine]}
    if probs: return 'reproduced', {'native_output': out, 'problems': [pr[2] for pr in probs], 'note': 'the real binary violates the property on this input, attributed differently'}
    return 'not-reproduced', {'native_output': out}


def key(v):
    if v.get('role'): return '%s:%s' % (v['kind'], v['role'])          # by role: library mode + flag (call site in main.rs), not by input
    c = v['case']
    return '%s:%s' % (v['kind'], json.dumps([c['mode'], c['sort'], c['flags'], c.get('heu'), hashlib.sha1(c['text'].encode()).hexdigest()[:10]]))


def run_concrete(eng, case):
    eng.reset_path([]); eng.path_violations = []
    p = {'text': case['text'], 'mode': case['mode'], 'sort': case.get('sort'), 'heu': case.get('heu'), 'fixed': {f: True for f in case['flags']}}
    app = make_app(eng, p, {})
    eng.hooks['files'] = {'input.adf': case['text']}
    run = [f for nm, f in eng.fns.items() if nm.endswith('::run') and 'bin/src/main.rs' in nm][0]
    try:
        eng.call_mir(run, [Ref([app], 0)])
    except RustPanic as ex:
        return {'exit': 101, 'stdout': ''.join(eng.hooks.get('stdout', []))}
    return {'exit': 0, 'stdout': ''.join(eng.hooks.get('stdout', []))}


def validate(ctx, tier, seed):
    """the real binary (real clap, real biodivine, real stdout) against App::run in mirse: byte-identical stdout, same exit class"""
    rng = random.Random(seed * 53 + 2)
    eng = ctx.engines[engine(ctx)]
    mism = []; cnt = 0
    texts = TEXTS + MALFORMED[:1] + seeded_texts(rng, 2)
    for i in range(14 if tier == 'quick' else 40):
        case = {'text': rng.choice(texts), 'mode': rng.choice(['naive', 'biodivine', 'hybrid']), 'sort': rng.choice(['none', 'none', 'lx', 'an']),
                'flags': sorted(f for f in SEM_FLAGS if rng.random() < 0.35)}
        if rng.random() < 0.3: case['heu'] = rng.choice(['Simple', 'MinModMinPathsMaxVarImp', 'MinModMaxVarImpMinPaths'])
        out = run_native(ctx, case)
        try:
            mine = run_concrete(eng, case)
        except Exception as ex:
            mism.append('mirse failed on %s: %r' % (json.dumps(case), ex)); continue
        same = (out.get('exit') == 0) == (mine['exit'] == 0) and (out.get('stdout') == mine['stdout'] or
               # the rewriting-based procedures list their models in the order of biodivine's valuation iterator, which the contract model does not fix
               (any(f in case['flags'] for f in ('stable_rew', 'stable_rew2')) and sorted(out.get('stdout', '').split('\n')) == sorted(mine['stdout'].split('\n'))))
        if not same: mism.append('%s: native %s / mirse %s' % (json.dumps(case), str(out)[:300], mine))
        cnt += 1
    return cnt, mism


def seeded_texts(rng, k):
    """structured three-statement ADFs over the names p1, p10, p2 (lexicographic and alphanumeric orders differ), declared in random order"""
    out = []
    plain = ['p1', 'p10', 'p2']
    for _ in range(k):
        n2, a2 = adftext.rand_adf_structured(rng, 3)
        mp = dict(zip(n2, plain))
        def rn(f): return ('atom', mp[f[1]]) if f[0] == 'atom' else (f if f[0] in ('top', 'bot') else (f[0],) + tuple(rn(g) for g in f[1:]))
        order = list(plain); rng.shuffle(order)
        out.append(adftext.render(order, {mp[k_]: rn(v) for k_, v in a2.items()}))
    return out


def engine(ctx):
    from vlib import build
    key_ = ctx.engine_multi('cli', [('adf_bdd', '--lib', build.DEFAULT_FEATURES), ('adf-bdd-bin', '--bin adf-bdd', build.DEFAULT_FEATURES)],
                            ('lib/src/**/*.rs', 'bin/src/**/*.rs'))
    eng = ctx.engines[key_]
    if not getattr(eng, '_cli_models', False):
        from mirse import models_nom, models_cli
        models_nom.install(eng); models_cli.install(eng); eng._cli_models = True
    return key_


def clap_matrix(ctx, tier):
    """clap's argument parsing is not executed symbolically (the harness constructs the parsed App).  So that a disagreement between the App the
    harness assumes and the one the real parser delivers cannot hide, the real binary is invoked once per library mode with every single
    semantics flag, every --heu value and both sorting flags; each run is judged against the definitions like a replayed counterexample."""
    conf = []; inc = []; runs = 0
    text = TEXTS[0]
    seen = set()
    for mode in ('naive', 'biodivine', 'hybrid'):
        cases = [{'text': text, 'mode': mode, 'sort': 'none', 'flags': [f]} for f in SEM_FLAGS]
        cases += [{'text': TEXTS[1], 'mode': mode, 'sort': so, 'flags': ['grounded', 'complete']} for so in ('lx', 'an')]
        if mode != 'biodivine':
            cases += [{'text': text, 'mode': mode, 'sort': 'none', 'flags': ['stable_ng'], 'heu': h} for h in ('Simple', 'MinModMinPathsMaxVarImp', 'MinModMaxVarImpMinPaths', 'Rand')]
        cases.append({'text': MALFORMED[0], 'mode': mode, 'sort': 'none', 'flags': ['grounded']})
        for case in cases:
            out = run_native(ctx, case); runs += 1
            for kind, role, why in judge_native(out, case):
                if kind == 'ignored-flag' and excusable(case['flags'][0], mode): continue
                v = {'kind': kind, 'what': why, 'case': case, 'role': role if role else None}
                if kind == 'panic' and case.get('heu'): v['role'] = 'panic:heu'
                k = key(v)
                if k in seen: continue
                seen.add(k); conf.append((k, v, {'native_output': out, 'problems': [why]}))
    return conf, {'clap_boundary_runs': runs, 'clap_boundary_note': 'real binary (real clap) invoked with every single flag, --heu value and sorting flag per library mode; judged against the definitions'}, inc


def spec(ctx, tier, seed):
    ek = engine(ctx)
    rng = random.Random(seed * 59 + 3)
    jobs = []; mod = 'harness.c15'
    texts = TEXTS if tier == 'quick' else TEXTS + seeded_texts(rng, 9)
    for ti, text in enumerate(texts):
        for mode in ('naive', 'biodivine', 'hybrid'):
            # every combination of the ten semantics flags (2^10 per job where the code looks at all of them)
            jobs.append(Job('t%d-%s-allflags' % (ti, mode), mod, 'cli_job', {'text': text, 'mode': mode, 'free': SEM_FLAGS}, engine_key=ek, stop_after_violations=400))
    # sorting flags and heuristics with a reduced flag set
    small = ['grounded', 'complete', 'stable', 'stable_ng', 'two_val', 'stable_rew', 'stable_rew2', 'stable_pre']
    for mode in ('naive', 'biodivine', 'hybrid'):
        for sort in ('lx', 'an'):
            jobs.append(Job('t1-%s-%s' % (mode, sort), mod, 'cli_job', {'text': TEXTS[1], 'mode': mode, 'sort': sort, 'free': small if tier == 'quick' else SEM_FLAGS}, engine_key=ek, stop_after_violations=400))
            if tier == 'thorough':
                jobs.append(Job('t4-%s-%s' % (mode, sort), mod, 'cli_job', {'text': texts[4], 'mode': mode, 'sort': sort, 'free': SEM_FLAGS}, engine_key=ek, stop_after_violations=400))
    for heu in ['Simple', 'MinModMinPathsMaxVarImp', 'MinModMaxVarImpMinPaths'] + (['Rand'] if tier == 'thorough' else []):
        for mode in ('naive', 'hybrid'):
            jobs.append(Job('t0-%s-heu-%s' % (mode, heu), mod, 'cli_job', {'text': TEXTS[0], 'mode': mode, 'heu': heu, 'free': ['stable_ng', 'two_val', 'grounded'], 'max_draws': 30},
                            engine_key=ek, stop_after_violations=400))
    for mi, text in enumerate(MALFORMED if tier == 'thorough' else MALFORMED[:2]):
        for mode in ('naive', 'biodivine', 'hybrid'):
            jobs.append(Job('malformed%d-%s' % (mi, mode), mod, 'cli_job', {'text': text, 'mode': mode, 'free': ['grounded', 'complete', 'stable']}, engine_key=ek, stop_after_violations=400))
    jobs.append(Job('canary', mod, 'cli_job', {'text': TEXTS[0], 'mode': 'naive', 'free': ['grounded'], 'canary': True}, engine_key=ek, stop_after_violations=1, canary=True))
    return {'jobs': jobs, 'level': 'model_checking', 'allowed_status': ('ok', 'panic'), 'max_reported': 30, 'extra': lambda ctx_: clap_matrix(ctx_, tier),
            'assumptions': ASSUMPTIONS + ['clap produces the App value the harness constructs (flag groups of the derive: --lx / --an exclusive); argument parsing itself is not executed',
                                          'biodivine_lib_bdd behaves as its contract model (mirse/models_bio.py)',
                                          'stdout = the text rendered by std::io::_print in program order; formatting of the crate\'s own types is executed from MIR, std formatting of str / integers is modelled',
                                          'the file system is a stub: read_to_string returns the given text'],
            'bounds': '%d well-formed input files (2-3 statements; incl. names whose lexicographic and alphanumeric orders differ) x 3 library modes x all 2^10 combinations of the semantics flags '
                      '(symbolic); --lx / --an (thorough: again with all ten flags symbolic) and --heu {Simple, MinModMinPathsMaxVarImp, MinModMaxVarImpMinPaths%s} with 3-5 symbolic flags; %d malformed files x 3 modes' %
                      (len(texts), ', Rand' if tier == 'thorough' else '', len(MALFORMED if tier == 'thorough' else MALFORMED[:2])),
            'outside': 'other input files (the semantics on all small ADFs are C01-C05, the syntax C08/C09); --import/--export/--counter, verbosity flags; clap; process exit codes other than '
                       'panic / no panic; the order of statements inside a printed line'}
