"""C20 - interpretation iterators enumerate every completion / refinement exactly once (DESIGN.md section 5/C20)"""
import json, random, itertools
import z3
from mirse.engine import *
from mirse.hlib import *
from mirse.runner import Job
from .bddprops import ASSUMPTIONS

KINDS = {'two': 'TwoValuedInterpretationsIterator', 'three': 'ThreeValuedInterpretationsIterator'}


def run_iter(e, kind, vec, extra=2, limit=5000):
    """drive the real new()/next() MIR; returns (items as lists of raw values, results of the calls after the first None)"""
    ty = KINDS[kind]
    sl = SliceRef(vec, 0, len(vec))
    it = e.call('adf::%s::new' % ty, [sl])
    cell = Ref([it], 0)
    nxt = e.resolve('<adf::%s as Iterator>::next' % ty)
    items = []
    while True:
        r = e.call_mir(nxt, [cell])
        if r.v == 'None': break
        items.append([tv(x) for x in r.f[0].items])
        if len(items) > limit: raise BoundExceeded('iterator does not end')
    after = []
    for _ in range(extra):
        r = e.call_mir(nxt, [cell])
        after.append(r.v)
    return items, after


def iter_job(e, p):
    L = p['L']; kind = p['kind']; canary = p.get('canary')
    xs = [z3.BitVec('t%d' % i, 64) for i in range(L)]
    vec = [T(x) for x in xs]
    def on_panic(e_, msg):
        m = sat_model(e_, True)
        if m is not None: report(e_, 'panic', what='%s iterator panics: %s' % (kind, msg[:150]), vec=[mint(m, x) for x in xs], iter=kind)
    e.hooks['on_panic'] = on_panic; e.hooks['on_bound'] = on_panic
    items, after = run_iter(e, kind, vec, limit=3 ** L + 10)
    # after the run the decided/undecided pattern is fixed by the path condition
    # the code under test normally decides the pattern itself; a position it never looked at is decided here (forks the path)
    dec = [i for i in range(L) if e.branch(z3.ULE(xs[i], 1))]
    und = [i for i in range(L) if i not in dec]
    k = len(und)
    want = (2 ** k) if kind == 'two' else (3 ** k)
    if canary: want += 1
    probs = []
    if len(items) != want: probs.append('yields %d items, expected %d' % (len(items), want))
    if any(a != 'None' for a in after): probs.append('yields an item after None')
    sigs = []
    for it_ in items:
        sig = []
        if len(it_) != L: probs.append('item of wrong length'); continue
        for i in range(L):
            v = it_[i]
            if i in dec:
                if sat_model(e, differs_int(v, xs[i])) is not None: probs.append('decided position %d altered' % i)
                sig.append('d')
            else:
                if not is_sym(v) and v in (0, 1): sig.append(str(v))
                elif kind == 'three' and is_sym(v) and sat_model(e, v != xs[i]) is None: sig.append('u')
                else: probs.append('position %d holds %s: neither a truth value nor (three-valued) the original entry' % (i, v)); sig.append('?')
        sigs.append(''.join(sig))
    if len(set(sigs)) != len(sigs): probs.append('some item is yielded more than once')
    if kind == 'three' and items and any(c not in 'du' for c in sigs[0]): probs.append('first item is not the interpretation itself')
    if probs:
        m = sat_model(e, True)
        report(e, 'wrong-enumeration', what='; '.join(sorted(set(probs))[:4]), vec=[mint(m, x) for x in xs], iter=kind)
    return {'kind': kind, 'L': L, 'undecided': k, 'items': len(items), 'first': sigs[:3]}


def long_job(e, p):
    """vectors with 63..130 undecided positions: the full enumeration is out of reach, but construction and the first items are not
    (counters kept in a machine word overflow exactly here).  Two entries are symbolic, the others undecided concrete handles."""
    L = p['L']; kind = p['kind']
    xs = [z3.BitVec('t0', 64), z3.BitVec('t1', 64)]
    vec = [T(xs[0])] + [T(5 + i) for i in range(L - 2)] + [T(xs[1])]
    vals = lambda m: [mint(m, xs[0])] + [5 + i for i in range(L - 2)] + [mint(m, xs[1])]
    def on_panic(e_, msg):
        m = sat_model(e_, True)
        if m is not None: report(e_, 'panic', what='%s iterator panics on a vector of length %d: %s' % (kind, L, msg[:150]), vec=vals(m), iter=kind, long=True)
    e.hooks['on_panic'] = on_panic; e.hooks['on_bound'] = on_panic
    ty = KINDS[kind]
    it = e.call('adf::%s::new' % ty, [SliceRef(vec, 0, len(vec))]); cell = Ref([it], 0)
    nxt = e.resolve('<adf::%s as Iterator>::next' % ty)
    items = []
    for _ in range(p['items']):
        r = e.call_mir(nxt, [cell])
        if r.v == 'None': break
        items.append([tv(x) for x in r.f[0].items])
    und0 = sat_model(e, z3.ULE(xs[0], 1)) is None; und1 = sat_model(e, z3.ULE(xs[1], 1)) is None
    k = L - 2 + int(und0) + int(und1)
    probs = []
    if len(items) < p['items']: probs.append('stops after %d items although 2^%d / 3^%d exist' % (len(items), k, k))
    sigs = set()
    for it_ in items:
        if len(it_) != L: probs.append('item of wrong length'); continue
        sig = []
        for i, v in enumerate(it_):
            orig = vec[i].f[0]
            if is_sym(v) or is_sym(orig):
                same = sat_model(e, (v if is_sym(v) else z3.BitVecVal(v, 64)) != (orig if is_sym(orig) else z3.BitVecVal(orig, 64))) is None
                if same: sig.append('o'); continue
                if is_sym(v): probs.append('position %d holds an unrelated value' % i); continue
            elif v == orig: sig.append('o'); continue
            if v in (0, 1): sig.append(str(v))
            else: probs.append('position %d holds %s' % (i, v))
        sigs.add(''.join(sig))
    if len(sigs) != len(items): probs.append('an item is repeated among the first %d' % len(items))
    if kind == 'three' and items and any(ch != 'o' for ch in sorted(sigs)[-1:][0]) and 'o' * L not in sigs: probs.append('first item is not the interpretation itself')
    if probs:
        m = sat_model(e, True); report(e, 'wrong-enumeration', what='; '.join(sorted(set(probs))[:3]), vec=vals(m), iter=kind, long=True)
    return {'kind': kind, 'L': L, 'undecided': k, 'items_inspected': len(items)}


def differs_int(a, b):
    if not is_sym(a) and not is_sym(b): return a != b
    return a != b


def reference(vec, kind):
    und = [i for i, v in enumerate(vec) if v > 1]
    opts = (0, 1) if kind == 'two' else (0, 1, None)
    out = []
    for c in itertools.product(opts, repeat=len(und)):
        it_ = list(vec)
        for i, o in zip(und, c):
            if o is not None: it_[i] = o
        out.append(it_)
    return out


def judge(out, vec, kind):
    if 'items' not in out: return ['native run failed: %s' % str(out)[:200]]
    ref = reference(vec, kind)
    probs = []
    got = [[int(x) for x in it_] for it_ in out['items']]
    if sorted(got) != sorted(ref): probs.append('native yields %d items %s..., expected the %d completions' % (len(got), got[:3], len(ref)))
    if kind == 'three' and got and got[0] != list(vec): probs.append('first item is not the interpretation itself')
    if any(a for a in out['after']): probs.append('item after None')
    return probs


def replay(ctx, v):
    if v.get('long'):
        out = ctx.native().call({'cmd': 'iter', 'kind': v['iter'], 'vec': [str(x) for x in v['vec']], 'limit': 64})
        if 'items' not in out: return 'reproduced', out
        got = [[int(x) for x in it_] for it_ in out['items']]
        und = [i for i, x in enumerate(v['vec']) if x > 1]
        ok = len(got) == 64 and len(set(map(tuple, got))) == 64 and all(all((g[i] == v['vec'][i]) or (i in und and g[i] in (0, 1)) for i in range(len(g))) for g in got)
        return ('not-reproduced' if ok else 'reproduced'), out
    out = ctx.native().call({'cmd': 'iter', 'kind': v['iter'], 'vec': [str(x) for x in v['vec']]})
    probs = judge(out, v['vec'], v['iter'])
    return ('reproduced', {'native_output': out, 'problems': probs}) if probs else ('not-reproduced', {'native_output': out})


def key(v): return '%s:%s:%s' % (v['kind'], v['iter'], json.dumps(v['vec']))


def validate(ctx, tier, seed):
    rng = random.Random(seed + 99)
    eng = ctx.engines[ctx.engine()]; nat = ctx.native()
    vecs = [[1, 22, 0, 12, 1], [22, 12], [], [0], [1], [5]]      # the vectors of the repository's own iterator tests + edge cases
    for _ in range(10 if tier == 'quick' else 40):
        L = rng.randint(0, 6)
        vecs.append([rng.choice([0, 1, 2, 3, 17, 2**64 - 1, rng.randrange(2**64)]) for _ in range(L)])
    mism = []; cnt = 0
    for vec in vecs:
        for kind in KINDS:
            out = nat.call({'cmd': 'iter', 'kind': kind, 'vec': [str(x) for x in vec]})
            eng.reset_path([]); eng.path_violations = []
            try:
                items, after = run_iter(eng, kind, [T(x) for x in vec])
            except Exception as ex:
                mism.append('mirse failed on %s %s: %r' % (kind, vec, ex)); continue
            if [[int(x) for x in i] for i in out.get('items', [])] != items: mism.append('%s %s: native %s / mirse %s' % (kind, vec, str(out)[:200], items[:4]))
            cnt += 1
    return cnt, mism


def spec(ctx, tier, seed):
    ctx.engine()
    Ls = range(0, 7) if tier == "quick" else range(0, 9)
    # fuel: the longest run yields 3^L items of L entries; the budget is derived from that (exceeding it would be inconclusive, not a pass)
    jobs = [Job('%s-L%d' % (k, L), 'harness.c20', 'iter_job', {'L': L, 'kind': k}, max_steps=2_000_000 + 400 * L * (3 ** L)) for k in KINDS for L in Ls]
    for k in KINDS:
        for L in (63, 64, 65, 130):
            jobs.append(Job('%s-long-L%d' % (k, L), 'harness.c20', 'long_job', {'L': L, 'kind': k, 'items': 40}, stop_after_violations=10))
    jobs.append(Job('canary', 'harness.c20', 'iter_job', {'L': 2, 'kind': 'two', 'canary': True}, stop_after_violations=1, canary=True))
    return {'jobs': jobs, 'level': 'model_checking', 'assumptions': ASSUMPTIONS, 'allowed_status': ('ok', 'panic', 'bound'),
            'bounds': 'interpretation vectors of length L <= %d; every entry an unconstrained symbolic 64-bit handle, so each path covers all vectors with one '
                      'decided/undecided pattern (3^L patterns: false / true / any handle >= 2)' % max(Ls),
            'outside': 'complete enumeration for vectors longer than %d; for lengths 63, 64, 65 and 130 construction and the first 40 items are checked' % max(Ls)}
