"""spec/validate/replay/key glue for the semantics properties C01-C05"""
from mirse.runner import Job
from . import semjobs
from .bddprops import ASSUMPTIONS

BOUNDS = ('ADF families F(n,S,seed): n=2 with all statements symbolic (the complete space of 256 ADFs); n=3 with |S|=1 symbolic statement '
          '(256 functions) in concrete contexts drawn from VERIF_SEED; thorough adds n=3 |S|=2 (65 536 ADFs per family) and n=4 |S|=1. '
          'Diagrams are built through the real Bdd::node (Shannon expansion); MIR step fuel per path as configured.')
OUTSIDE = ('n=3 with all statements symbolic (16.7M ADFs) and larger; biodivine / hybrid back-ends (their library internals cannot be executed '
           'symbolically; the bridge is validated under C09); text syntax (C08/C09)')

def make(procs, canary_proc, **kw):
    def spec(ctx, tier, seed):
        ctx.engine()
        return {'jobs': semjobs.make_jobs(Job, procs, tier, seed, canary_proc, **kw), 'level': 'model_checking',
                'assumptions': ASSUMPTIONS + ['crossbeam unbounded channel = lossless FIFO with sender/receiver counts',
                                              'rand::StdRng: every draw is an unconstrained symbolic value (over-approximates all seeds)'],
                'bounds': BOUNDS, 'outside': OUTSIDE, 'allowed_status': ('ok', 'panic', 'bound')}
    def validate(ctx, tier, seed): return semjobs.validate(ctx, tier, seed, procs)
    return spec, validate
