"""spec/validate/replay/key glue for the semantics properties C01-C05"""
from mirse.runner import Job
from . import semjobs
from .bddprops import ASSUMPTIONS

BOUNDS = ('ADF families F(n,S,seed): n=2 with all statements symbolic (the complete space of 256 ADFs); n=3 with |S|=1 symbolic statement '
          '(256 functions) in concrete contexts drawn from VERIF_SEED; thorough adds, for the first procedure listed, n=3 |S|=2 (65 536 ADFs per family) and n=4 |S|=1 (not for complete models). '
          'Diagrams are built through the real Bdd::node (Shannon expansion); MIR step fuel per path as configured. Procedures named bio/<p> run on adfbiodivine::Adf '
          'whose conditions are the symbolic tables (values of the biodivine contract model), hyb/<p> and hybraw/<p> on the naive Adf delivered by the real '
          'hybrid_step() / hybrid_step_opt(false) from it.')
OUTSIDE = ('symbolic engine: n=3 with all statements symbolic (16.7M ADFs) and larger; the biodivine library internals (contract model: Boolean functions as truth tables, '
           'its physical node layout only approximated); adfbiodivine::Adf::from_parser / the parser-based rewriting on symbolic input (they need a text). Those, and all '
           'back-ends once more with the real biodivine library, are covered by the second engine (z3 judging the real binary\'s answers on concrete texts, see '
           'coverage.backend_*), which validates individual instances, not all inputs; text syntax is C08/C09')

def replay(ctx, v):
    if 'backend' in v:
        from . import backends
        return backends.replay_backend(ctx, v)
    return semjobs.replay(ctx, v)

def key(v):
    if 'backend' in v:
        import hashlib
        return '%s:%s:%s:%s' % (v['backend'], v['proc'], v['sort'], hashlib.sha1(v['text'].encode()).hexdigest()[:12])
    return semjobs.key(v)

def make(procs, canary_proc, backend_kinds=(), **kw):
    def spec(ctx, tier, seed):
        ctx.engine()
        def extra(ctx_):
            from . import backends
            return backends.run_backends(ctx_, tier, seed, list(backend_kinds))
        return {'jobs': semjobs.make_jobs(Job, procs, tier, seed, canary_proc, **kw), 'level': 'model_checking',
                'extra': extra if backend_kinds else None,
                'assumptions': ASSUMPTIONS + ['crossbeam unbounded channel = lossless FIFO with sender/receiver counts',
                                              'biodivine_lib_bdd behaves as its contract model (mirse/models_bio.py): a Bdd is the Boolean function it denotes; answers of every bio/hyb procedure are compared with the real library on the validation instances of each run',
                                              'rand::StdRng: every draw is an unconstrained symbolic value (over-approximates all seeds)'],
                'bounds': BOUNDS, 'outside': OUTSIDE, 'allowed_status': ('ok', 'panic', 'bound')}
    def validate(ctx, tier, seed): return semjobs.validate(ctx, tier, seed, procs)
    return spec, validate
