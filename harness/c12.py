"""C12 - answers independent of the cargo feature configuration (DESIGN.md section 5/C12).
The harnesses of C06/C07/C13 and the semantics at n=2 are executed against MIR dumped under each feature set and
compared with the oracle (hence with each other and with the default build)."""
import random, itertools
from mirse.runner import Job
from vlib import build
from . import queryjobs, semjobs, bddprops
from .bddprops import ASSUMPTIONS

ALL_SETS = []
for counting in ((), ('adhoccounting',), ('adhoccounting', 'adhoccountmodels')):
    for vl in ((), ('variablelist',)):
        for fe in ((), ('frontend',)):
            ALL_SETS.append(tuple(sorted(counting + vl + fe)))


def chosen_sets(tier, seed):
    if tier == 'thorough': return list(ALL_SETS)
    rng = random.Random(seed)
    default = tuple(sorted(build.DEFAULT_FEATURES))
    no_count = [s for s in ALL_SETS if 'adhoccounting' not in s]
    with_models = [s for s in ALL_SETS if 'adhoccountmodels' in s]
    rest = [s for s in ALL_SETS if s != default]
    pick = [default, rng.choice(no_count), rng.choice(with_models)]
    pick.append(rng.choice([s for s in rest if s not in pick]))
    return pick


def spec(ctx, tier, seed):
    sets = chosen_sets(tier, seed)
    keys = [ctx.engine(s) for s in sets]
    jobs = queryjobs.make_jobs(Job, tier, seed, sets, keys, canary=True, light=(tier == 'quick'))
    S = {'op': 'shannon', 'bits': 'sym'}
    for s, k in zip(sets, keys):
        fk = build.fkey(s); fl = sorted(build.closure(s))
        for proc in ('grounded', 'complete', 'stable', 'heu_a', 'heu_b', 'nogood:Simple', 'nogood:MinModMinPathsMaxVarImp'):
            jobs.append(Job('%s:n2-%s' % (fk, proc), 'harness.semjobs', 'sem_job', {'n': 2, 'fam': ['sym', 'sym'], 'proc': proc, 'features': fl},
                            engine_key=k, stop_after_violations=40))
        for op in ('restrict', 'and', 'xor'):
            jobs.append(Job('%s:n2-pairs-%s' % (fk, op), 'harness.bddjobs', 'script_job', {'n': 2, 'script': [S, S, {'op': op, 'a': 0, 'b': 1}], 'features': fl},
                            engine_key=k, stop_after_violations=40))
        # restriction on all 3-variable functions (diagrams that skip variable levels only exist from n = 3 on)
        jobs.append(Job('%s:n3-restrict-all' % fk, 'harness.bddjobs', 'script_job', {'n': 3, 'script': [S, {'op': 'restrict', 'a': 0}], 'features': fl},
                        engine_key=k, stop_after_violations=40))
        # persistence under every feature set (which private tables exist, and which are exported, depends on the features)
        for fin in ('post_ops', 'grounded'):
            jobs.append(Job('%s:n2-serde=>%s' % (fk, fin), 'harness.c14', 'persist_job', {'n': 2, 'fam': ['sym', 'sym'], 'history': ['grounded'], 'final': fin, 'mode': 'serde', 'features': fl},
                            engine_key=k, stop_after_violations=40))
    return {'jobs': jobs, 'level': 'model_checking', 'assumptions': ASSUMPTIONS, 'allowed_status': ('ok', 'panic', 'bound'),
            'extra_coverage': {'feature_sets': [build.fkey(s) for s in sets], 'feature_sets_total': len(ALL_SETS)},
            'bounds': 'feature sets this run: %s (quick: default + 3 drawn from VERIF_SEED, always one without adhoccounting and one with adhoccountmodels; thorough: all 12). '
                      'Per set: every diagram query of C13 on all 2-variable functions and seeded 3-variable families, restrict/and/xor on all pairs of 2-variable functions, '
                      'grounded/complete/stable/counting-guided/nogood semantics on all 256 two-statement ADFs. The documented exception (memoised model counts with adhoccounting '
                      'but without adhoccountmodels) is excluded exactly.' % ', '.join(build.fkey(s) for s in sets),
            'outside': 'larger diagrams per feature set; the binary crate feature plumbing (bin/Cargo.toml)'}


def validate(ctx, tier, seed):
    return queryjobs.validate_features(ctx, tier, seed, chosen_sets(tier, seed))


def _mod(v):
    if 'replay' in v: return bddprops
    if 'case' in v and 'mode' in v['case']:
        from . import c14
        return c14
    if 'case' in v and 'proc' in v['case']: return semjobs
    return queryjobs

def replay(ctx, v): return _mod(v).replay(ctx, v)
def key(v): return _mod(v).key(v)
