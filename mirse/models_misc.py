"""rand::rngs::StdRng: every draw is a fresh symbolic value (covers every seed and every sequence)."""
import re
import z3
from .engine import *
from .models import deref, d1, unguard

class RngObj:
    """seeded = created by from_seed / seed_from_u64: its draws are numbered per hooks['draws'] (a harness that re-runs a call sequence "with the same
    seed" resets that counter and gets the same solver variables again).  Everything else (from_entropy, thread_rng, rand::random) draws from a
    counter that is never reset: two runs see unrelated values."""
    def __init__(self, seeded=True): self.draws = []; self.seeded = seeded
    def clone(self, e): return self
    def __repr__(self): return 'StdRng' if self.seeded else 'EntropyRng'

LOCAL = {}
def lmodel(*names):
    def deco(f):
        f.model_name = 'rand:' + names[0]
        for n in names: LOCAL[n] = f
        return f
    return deco

def new_rng_cell():
    return CellObj(RngObj(), 'refcell')

@lmodel('SeedableRng::from_seed', 'SeedableRng::seed_from_u64')
def _from_seed(e, c, a): return RngObj(True)
@lmodel('SeedableRng::from_entropy', 'rand::thread_rng', 'thread_rng', 'rngs::OsRng')
def _from_entropy(e, c, a): return RngObj(not e.hooks.get('entropy_is_unseeded', False))

def _fresh(e, r, bool_):
    if isinstance(r, RngObj) and not r.seeded:
        k = e.hooks.get('entropy_draws', 0); e.hooks['entropy_draws'] = k + 1
        v = z3.Bool('ecoin%d' % k) if bool_ else z3.BitVec('edraw%d' % k, 64)
    else:
        k = e.hooks.get('draws', 0); e.hooks['draws'] = k + 1
        lim = e.hooks.get('max_draws')
        if lim is not None and k >= lim: raise BoundExceeded('random draws')
        v = z3.Bool('coin%d' % k) if bool_ else z3.BitVec('draw%d' % k, 64)
    if isinstance(r, RngObj): r.draws.append(v)
    return v

@lmodel('RngCore::next_u64')
def _next_u64(e, c, a): return _fresh(e, unguard(a[0]), False)
@lmodel('Rng::gen_bool')
def _gen_bool(e, c, a): return _fresh(e, unguard(a[0]), True)
@lmodel('rand::random', 'random')
def _random(e, c, a):
    # the thread-local generator: never governed by a seed the caller set
    r = RngObj(False)
    if re.search(r'random::<bool>', c): return _fresh(e, r, True)
    m = re.search(r'random::<(u8|u16|u32|u64|usize|i8|i16|i32|i64|isize)>', c)
    if not m: raise Unsupported('rand::random of type %s' % c)
    v = _fresh(e, r, False)
    w = INT_TYPES[m.group(1)][0]
    return v if w == 64 else z3.Extract(w - 1, 0, v)

def install(e):
    e.models.update(LOCAL)
