"""rand::rngs::StdRng: every draw is a fresh symbolic value (covers every seed and every sequence)."""
import z3
from .engine import *
from .models import deref, d1, unguard

class RngObj:
    def __init__(self): self.draws = []
    def clone(self, e): return self
    def __repr__(self): return 'StdRng'

LOCAL = {}
def lmodel(*names):
    def deco(f):
        f.model_name = 'rand:' + names[0]
        for n in names: LOCAL[n] = f
        return f
    return deco

def new_rng_cell():
    return CellObj(RngObj(), 'refcell')

@lmodel('SeedableRng::from_entropy', 'SeedableRng::from_seed', 'SeedableRng::seed_from_u64')
def _from_entropy(e, c, a): return RngObj()
@lmodel('RngCore::next_u64')
def _next_u64(e, c, a):
    r = unguard(a[0])
    k = e.hooks.get('draws', 0); e.hooks['draws'] = k + 1
    lim = e.hooks.get('max_draws')
    if lim is not None and k >= lim: raise BoundExceeded('random draws')
    v = z3.BitVec('draw%d' % k, 64)
    r.draws.append(v)
    return v
@lmodel('Rng::gen_bool')
def _gen_bool(e, c, a):
    r = unguard(a[0])
    k = e.hooks.get('draws', 0); e.hooks['draws'] = k + 1
    v = z3.Bool('coin%d' % k)
    r.draws.append(v)
    return v

def install(e):
    e.models.update(LOCAL)
