"""Environment of the command-line front end (bin/src/main.rs), as stubs with their documented contract:

  * core::fmt: `Arguments` built by format_args! (template bytes decoded as documented in library/core/src/fmt/mod.rs of the toolchain that
    produced the MIR: literal pieces, 0xC0 placeholders without options), `Argument::new_display/new_debug`, `Formatter::write_fmt/write_str`;
    Display of the crate's own types is *executed* from their MIR (PrintableInterpretation, Term, ...), Display of str/String/integers is
    rendered here.  Placeholders with width/precision/flags are not supported (Unsupported -> inconclusive).
  * std::io::_print appends the rendered text to the path's stdout buffer (hooks['stdout']).
  * std::fs::read_to_string returns the harness-provided file content (hooks['files'][path]) or an io error for a missing file;
    Path::exists / File::create are recorded (hooks['fs_events']) with a symbolic answer for exists().
  * env_logger / log: no output (max level Off)."""
import re
import z3
from .engine import *
from .models import deref, d1, unguard

LOCAL = {}
def cmodel(*names):
    def deco(f):
        f.model_name = 'cli:' + names[0]
        for n in names: LOCAL[n] = f
        return f
    return deco


class FmtArgs:
    def __init__(self, parts): self.parts = parts        # ('lit', str) | ('arg', kind, type name, value)
    def clone(self, e): return self
    def __repr__(self): return 'Arguments%r' % (self.parts,)

class FmtArg:
    def __init__(self, kind, ty, val): self.kind = kind; self.ty = ty; self.val = val
    def clone(self, e): return self
    def __repr__(self): return 'Argument(%s,%s)' % (self.kind, self.ty)

class Formatter:
    def __init__(self): self.out = []
    def clone(self, e): return self
    def text(self): return ''.join(self.out)

class Opaque:
    def __init__(self, name): self.name = name
    def clone(self, e): return self
    def __repr__(self): return self.name


def as_pystr(v):
    v = deref(v)
    if isinstance(v, StrBuf): v = v.s
    if isinstance(v, str): return v
    if type(v).__name__ == 'SymStr':
        bs = v.bytes()
        if all(isinstance(b, int) for b in bs): return bytes(bs).decode()
    raise Unsupported('formatting a symbolic / non-string value %r' % (v,))


@cmodel('Arguments::from_str', 'Arguments::from_str_nonconst', 'Arguments::new_const')
def _from_str(e, c, a):
    v = deref(a[0])
    if isinstance(v, (Struct, SliceRef, VecObj)):      # new_const(&[&str])
        items = v.f if isinstance(v, Struct) else (v.aslist() if isinstance(v, SliceRef) else v.items)
        return FmtArgs([('lit', as_pystr(x)) for x in items])
    return FmtArgs([('lit', as_pystr(v))])

@cmodel('Argument::new_display', 'Argument::new_debug')
def _new_arg(e, c, a):
    m = re.search(r'new_(display|debug)::<(.*)>$', c)
    return FmtArg(m.group(1), m.group(2), a[0])

@cmodel('Arguments::new')
def _args_new(e, c, a):
    tpl = deref(a[0]); tpl = bytes(tpl.f if isinstance(tpl, Struct) else tpl.aslist())
    args = deref(a[1]); args = args.f if isinstance(args, Struct) else (args.aslist() if isinstance(args, SliceRef) else args.items)
    parts = []; i = 0; nxt = 0
    while True:
        b = tpl[i]
        if b == 0: break
        if b < 0x80:
            parts.append(('lit', tpl[i+1:i+1+b].decode())); i += 1 + b
        elif b == 0x80:
            ln = tpl[i+1] | (tpl[i+2] << 8); parts.append(('lit', tpl[i+3:i+3+ln].decode())); i += 3 + ln
        elif b == 0xC0:
            parts.append(('arg', args[nxt])); nxt += 1; i += 1
        elif b >= 0xC0 and b & 0x37 == 0 and b & 0x08:
            idx = tpl[i+1] | (tpl[i+2] << 8); parts.append(('arg', args[idx])); nxt = idx + 1; i += 3
        else:
            raise Unsupported('format placeholder with options (template byte 0x%02x)' % b)
    return FmtArgs(parts)


def render_value(e, arg, out):
    v = arg.val
    x = deref(v)
    while isinstance(x, Ref): x = x.get()
    if arg.kind == 'debug' and (isinstance(x, (StrBuf, str, bool, int)) or type(x).__name__ == 'SymStr') and not is_sym(x):
        fm = Formatter(); _debug_fmt(e, '<?>', [Ref([x], 0), Ref([fm], 0)]); out.append(fm.text()); return
    if arg.kind == 'display':
        if isinstance(x, (StrBuf, str)) or type(x).__name__ == 'SymStr': out.append(as_pystr(x)); return
        if isinstance(x, bool): out.append('true' if x else 'false'); return
        if isinstance(x, int): out.append(str(x)); return
        if is_sym(x): raise Unsupported('Display of a symbolic value')
    ty = arg.ty
    ty0 = re.sub(r"^&(?:'\w+ )?(?:mut )?", '', ty)
    tr = 'Display' if arg.kind == 'display' else 'Debug'
    f = None
    for t in (ty0, strip_generics(ty0), strip_generics(ty0).split('::')[-1]):
        try: f = e.resolve('<%s as %s>::fmt' % (t, tr))
        except Unsupported: f = None
        if f is not None: break
    if f is None: raise Unsupported('no %s impl in the MIR for %s' % (tr, ty))
    fm = Formatter()
    target = v
    # the impl takes &Self; an argument of type &T was stored as &&T
    if ty.startswith('&'):
        target = deref(v) if isinstance(deref(v), Ref) else v
    e.call_mir(f, [target if isinstance(target, Ref) else Ref([target], 0), Ref([fm], 0)])
    out.append(fm.text())


def render(e, fa, out):
    fa = deref(fa)
    for p in fa.parts:
        if p[0] == 'lit': out.append(p[1])
        else: render_value(e, p[1], out)


@cmodel('io::_print', 'std::io::_print')
def _print(e, c, a):
    buf = e.hooks.setdefault('stdout', [])
    render(e, a[0], buf)
    return UNIT
@cmodel('io::_eprint', 'std::io::_eprint')
def _eprint(e, c, a):
    buf = e.hooks.setdefault('stderr', [])
    render(e, a[0], buf)
    return UNIT

@cmodel('Formatter::write_fmt', '<Formatter as Write>::write_fmt', 'Write::write_fmt')
def _write_fmt(e, c, a):
    fm = unguard(a[0])
    if not isinstance(fm, Formatter): raise Unsupported('write_fmt on %r' % (fm,))
    render(e, a[1], fm.out)
    return Enum('Ok', [UNIT], 'Result')
@cmodel('Formatter::write_str', '<Formatter as Write>::write_str', 'Write::write_str')
def _write_str(e, c, a):
    fm = unguard(a[0])
    if not isinstance(fm, Formatter): raise Unsupported('write_str on %r' % (fm,))
    fm.out.append(as_pystr(a[1]))
    return Enum('Ok', [UNIT], 'Result')
@cmodel('Display::fmt')
def _display_fmt(e, c, a):
    fm = unguard(a[1])
    if not isinstance(fm, Formatter): raise Unsupported('Display::fmt into %r' % (fm,))
    render_value(e, FmtArg('display', re.match(r'^<(.*) as ', c).group(1) if c.startswith('<') else '?', a[0]), fm.out)
    return Enum('Ok', [UNIT], 'Result')

# ---- file system
@cmodel('fs::read_to_string', 'std::fs::read_to_string')
def _read_to_string(e, c, a):
    path = as_pystr(a[0])
    files = e.hooks.get('files', {})
    e.hooks.setdefault('fs_events', []).append(('read', path))
    if path in files: return Enum('Ok', [StrBuf(files[path])], 'Result')
    return Enum('Err', [Opaque('io::Error(NotFound)')], 'Result')
@cmodel('Path::exists', 'PathBuf::exists')
def _exists(e, c, a):
    path = as_pystr(a[0])
    ans = e.branch(z3.Bool('exists_%d' % len(e.hooks.setdefault('fs_events', []))))
    e.hooks['fs_events'].append(('exists', path, ans))
    return ans
@cmodel('File::create')
def _create(e, c, a):
    path = as_pystr(a[0])
    e.hooks.setdefault('fs_events', []).append(('create', path))
    return Enum('Ok', [Opaque('File(%s)' % path)], 'Result')
@cmodel('Path::to_string_lossy', 'PathBuf::to_string_lossy')
def _lossy(e, c, a): return StrBuf(as_pystr(a[0]))
# paths are plain strings in this model (PathBuf = String, &Path = &str); only the lexical operations a front end is likely to use
def _split_ext(path):
    d, _, name = path.rpartition('/')
    if name in ('', '.', '..') or '.' not in name[1:]: return path, None
    stem, _, ext = name.rpartition('.')
    return (d + '/' if d or path.startswith('/') else '') + stem, ext
@cmodel('Path::extension', 'PathBuf::extension')
def _extension(e, c, a):
    ext = _split_ext(as_pystr(a[0]))[1]
    return Enum('Some', [StrBuf(ext)], 'Option') if ext is not None else Enum('None', [], 'Option')
@cmodel('Path::with_extension', 'PathBuf::with_extension')
def _with_extension(e, c, a):
    base = _split_ext(as_pystr(a[0]))[0]; ext = as_pystr(a[1])
    return StrBuf(base + ('.' + ext if ext else ''))
@cmodel('PathBuf::set_extension')
def _set_extension(e, c, a):
    r = a[0]; cur = deref(r)
    base = _split_ext(as_pystr(cur))[0]; ext = as_pystr(a[1])
    new = base + ('.' + ext if ext else '')
    if isinstance(cur, StrBuf): cur.s = new
    else: r.set(StrBuf(new))
    return True
@cmodel('Path::file_name', 'PathBuf::file_name')
def _file_name(e, c, a):
    nm = as_pystr(a[0]).rstrip('/').rpartition('/')[2]
    return Enum('Some', [StrBuf(nm)], 'Option') if nm not in ('', '..') else Enum('None', [], 'Option')
@cmodel('Path::file_stem', 'PathBuf::file_stem')
def _file_stem(e, c, a):
    nm = as_pystr(a[0]).rstrip('/').rpartition('/')[2]
    if nm in ('', '..'): return Enum('None', [], 'Option')
    return Enum('Some', [StrBuf(nm.rpartition('.')[0] if '.' in nm[1:] else nm)], 'Option')
@cmodel('Path::to_path_buf', 'Path::to_owned', 'PathBuf::from', 'PathBuf::clone', 'Path::new', 'PathBuf::as_path', 'Path::as_os_str', 'PathBuf::as_os_str', 'OsStr::to_os_string',
        'PathBuf::into_os_string', 'OsString::from', 'OsStr::new', 'Path::display', 'PathBuf::display')
def _path_id(e, c, a): return StrBuf(as_pystr(a[0]))
@cmodel('Path::to_str', 'PathBuf::to_str', 'OsStr::to_str')
def _path_to_str(e, c, a): return Enum('Some', [StrBuf(as_pystr(a[0]))], 'Option')
@cmodel('Path::join', 'PathBuf::join')
def _path_join(e, c, a):
    x, y = as_pystr(a[0]), as_pystr(a[1])
    return StrBuf(y if y.startswith('/') else (x.rstrip('/') + '/' + y if x else y))
@cmodel('Path::is_file', 'PathBuf::is_file', 'Path::try_exists', 'PathBuf::try_exists')
def _is_file(e, c, a):
    r = _exists(e, c, a)
    return Enum('Ok', [r], 'Result') if c.endswith('try_exists') else r
@cmodel('serde_json::to_writer', 'to_writer')
def _to_writer(e, c, a):
    e.hooks.setdefault('fs_events', []).append(('write', repr(deref(a[0]))))
    return Enum('Ok', [UNIT], 'Result')

# ---- lexical_sort::natural_lexical_cmp (used by AdfParser::varsort_alphanum): case-insensitive, digit runs by value, plain order as tie-break.
# Only the printed statement order depends on it (not judged by C15; the native differential runs compare it on the names used).
def natural_key(s):
    out = []
    for m in re.finditer(r'\d+|\D', s):
        t = m.group(0)
        out.append((0, int(t), '') if t.isdigit() else (1, 0, t.lower()))
    return out
@cmodel('natural_lexical_cmp', 'lexical_sort::natural_lexical_cmp')
def _natural_lexical_cmp(e, c, a):
    x, y = as_pystr(a[0]), as_pystr(a[1])
    kx, ky = (natural_key(x), x), (natural_key(y), y)
    return Enum('Less' if kx < ky else 'Equal' if kx == ky else 'Greater', [], 'Ordering')

@cmodel('StringSort::string_sort_unstable', 'StringSort::string_sort')
def _string_sort(e, c, a):
    import functools
    from .models import as_slice
    v = as_slice(e, a[0]); xs = v.aslist()
    def cmpf(x, y):
        sx = x.s if isinstance(x, StrBuf) else x; sy = y.s if isinstance(y, StrBuf) else y
        o = e.call_value(a[1], [sx, sy]) if not isinstance(a[1], FnRef) or e.resolve(a[1].name) is not None else e.call_model(a[1].name, [sx, sy])
        return {'Less': -1, 'Equal': 0, 'Greater': 1}[o.v]
    xs.sort(key=functools.cmp_to_key(cmpf))
    v.items[v.start:v.start + v.n] = xs
    return UNIT

# ---- logging set-up
@cmodel('env_logger::builder', 'Builder::new', 'builder')
def _builder(e, c, a): return Opaque('env_logger::Builder')
@cmodel('Builder::filter_level')
def _filter_level(e, c, a):
    e.hooks['log_level'] = a[1]
    return a[0]
@cmodel('Builder::init', 'Builder::try_init')
def _init(e, c, a): return UNIT


def install(e):
    for k, f in LOCAL.items(): e.models[k] = f
    old = e.models.get('ToString::to_string')
    def to_string(e_, c, a):
        v = unguard(a[0])
        if isinstance(v, (Struct, Enum)) and c.startswith('<'):
            from .mirparse import find_matching
            ty = c[1:find_matching(c, 0)].rsplit(' as ', 1)[0]
            try:
                out = []; render_value(e_, FmtArg('display', ty, a[0]), out)
                return StrBuf(''.join(out))
            except Unsupported: pass
        return old(e_, c, a)
    to_string.model_name = 'ToString::to_string'
    if old is not None: e.models['ToString::to_string'] = to_string


# ---- format! / write! into a String
@cmodel('fmt::format', 'alloc::fmt::format', 'std::fmt::format', 'format')
def _format(e, c, a):
    out = []; render(e, a[0], out)
    return StrBuf(''.join(out))
@cmodel('<String as Write>::write_fmt', '<String as Write>::write_str', 'String::write_fmt', 'String::write_str')
def _string_write(e, c, a):
    s = unguard(a[0])
    if not isinstance(s, StrBuf) or not isinstance(s.s, str): raise Unsupported('write into %r' % (s,))
    if c.endswith('write_str'): s.s += as_pystr(a[1])
    else:
        out = []; render(e, a[1], out); s.s += ''.join(out)
    return Enum('Ok', [UNIT], 'Result')
@cmodel('Debug::fmt')
def _debug_fmt(e, c, a):
    fm = unguard(a[1])
    if not isinstance(fm, Formatter): raise Unsupported('Debug::fmt into %r' % (fm,))
    x = deref(a[0])
    while isinstance(x, Ref): x = x.get()
    if isinstance(x, (StrBuf, str)) or type(x).__name__ == 'SymStr': fm.out.append('"%s"' % as_pystr(x).replace('\\', '\\\\').replace('"', '\\"'))
    elif isinstance(x, bool): fm.out.append('true' if x else 'false')
    elif isinstance(x, int): fm.out.append(str(x))
    else: raise Unsupported('Debug rendering of %r' % (x,))
    return Enum('Ok', [UNIT], 'Result')
