"""Parser for rustc's textual MIR (-Zunpretty=mir). Prototype."""
import re, sys

class Fn:
    __slots__ = ('name', 'params', 'ret', 'locals', 'blocks', 'nargs', 'header', 'impl_span', 'stmt_cache', 'captures')
    def __init__(self):
        self.params = []; self.locals = {}; self.blocks = {}; self.stmt_cache = {}; self.impl_span = None; self.captures = []

HDR = re.compile(r'^fn (.*)$')

def split_top(s, sep=','):
    """split on sep at nesting depth 0 of ()[]{}<> and outside string literals"""
    out = []; depth = 0; cur = []; i = 0; n = len(s); instr = False
    while i < n:
        c = s[i]
        if instr:
            cur.append(c)
            if c == '\\':
                cur.append(s[i+1]); i += 1
            elif c == '"':
                instr = False
        elif c == '"':
            instr = True; cur.append(c)
        elif c == "'" and i + 2 < n and ((s[i+1] != '\\' and s[i+2] == "'") or (s[i+1] == '\\' and i + 3 < n and s[i+3] == "'")):
            k = 3 if s[i+1] != '\\' else 4          # char literal such as ',' '(' '\'' (a lifetime is never closed by a quote two characters on)
            cur.append(s[i:i+k]); i += k - 1
        elif c in '([{<':
            depth += 1; cur.append(c)
        elif c in ')]}':
            depth -= 1; cur.append(c)
        elif c == '>':
            if i > 0 and s[i-1] in '-=':   # -> or =>
                cur.append(c)
            else:
                depth -= 1; cur.append(c)
        elif c == sep and depth == 0:
            out.append(''.join(cur).strip()); cur = []
        else:
            cur.append(c)
        i += 1
    last = ''.join(cur).strip()
    if last:
        out.append(last)
    return out

def find_matching(s, i):
    """s[i] is an opening bracket; return index of its match"""
    op = s[i]; cl = {'(': ')', '[': ']', '{': '}', '<': '>'}[op]
    depth = 0; instr = False; j = i
    while j < len(s):
        c = s[j]
        if instr:
            if c == '\\': j += 1
            elif c == '"': instr = False
        elif c == '"': instr = True
        elif c == op: depth += 1
        elif c == cl and not (c == '>' and s[j-1] in '-='):
            depth -= 1
            if depth == 0: return j
        j += 1
    raise ValueError('unbalanced: ' + s[i:i+80])

def parse_header(line):
    # fn NAME(PARAMS) -> RET {
    assert line.startswith('fn ')
    body = line[3:]
    # find the parameter list: first '(' at depth 0 wrt <> and {}
    depth = 0; i = 0
    while i < len(body):
        c = body[i]
        if c in '<{[': depth += 1
        elif c in '}]': depth -= 1
        elif c == '>' and body[i-1] not in '-=': depth -= 1
        elif c == '(' and depth == 0: break
        i += 1
    name = body[:i]
    j = find_matching(body, i)
    params = body[i+1:j]
    rest = body[j+1:].strip()
    ret = '()'
    if rest.startswith('->'):
        ret = rest[2:].rstrip('{').strip()
    ps = []
    for p in split_top(params):
        m = re.match(r'_(\d+): (.*)$', p, re.S)
        ps.append((int(m.group(1)), m.group(2)))
    return name, ps, ret

def parse_mir(text):
    fns = {}
    lines = text.split('\n')
    i = 0; n = len(lines)
    while i < n:
        line = lines[i]
        if line.startswith('fn '):
            f = Fn(); f.header = line
            f.name, f.params, f.ret = parse_header(line)
            f.nargs = len(f.params)
            m = re.search(r'<impl at ([^>]*?)>', f.name)
            f.impl_span = m.group(1) if m else None
            for idx, ty in f.params: f.locals[idx] = ty
            i += 1
            cur = None
            while i < n and lines[i] != '}':
                l = lines[i]
                s = l.strip()
                m = re.match(r'let (?:mut )?_(\d+): (.*);$', s)
                if m and cur is None:
                    f.locals[int(m.group(1))] = m.group(2)
                elif cur is None and s.startswith('debug '):
                    # captured variables of a closure: "debug name => (_1.N: T);" (by value) or "(*((*_1).N: &T))" (by reference)
                    mc = re.match(r'debug (\w+) => \(?\*?\(\(?\*?_1\)?\.(\d+): ', s)
                    if mc: f.captures.append((mc.group(1), int(mc.group(2))))
                else:
                    m = re.match(r'bb(\d+)(?: \(cleanup\))?: \{$', s)
                    if m:
                        cur = []; f.blocks[int(m.group(1))] = cur
                    elif s == '}' :
                        pass
                    elif cur is not None and s:
                        # statements may span one line only in practice
                        cur.append(s)
                i += 1
            fns[f.name] = f
        else:
            # consts / promoteds: "const NAME: TY = {" ... "}"
            m = None
            if (line.startswith('const ') or line.startswith('static ')) and line.endswith(' = {'):
                body = line.split(' ', 1)[1][:-4]
                if body.startswith('mut '): body = body[4:]
                depth = 0; pos = None
                for k, ch in enumerate(body):
                    if ch in '<{[(': depth += 1
                    elif ch in '}])' or (ch == '>' and body[k-1] not in '-='): depth -= 1
                    elif ch == ':' and depth == 0 and body[k+1:k+2] == ' ':
                        pos = k; break
                if pos is not None: m = (body[:pos], body[pos+2:])
            if m:
                f = Fn(); f.header = line; f.name = m[0]; f.ret = m[1]; f.nargs = 0
                mm0 = re.search(r'<impl at ([^>]*?)>', f.name); f.impl_span = mm0.group(1) if mm0 else None
                i += 1; cur = None
                while i < n and lines[i] != '}':
                    s = lines[i].strip()
                    mm = re.match(r'let (?:mut )?_(\d+): (.*);$', s)
                    if mm and cur is None:
                        f.locals[int(mm.group(1))] = mm.group(2)
                    else:
                        mm = re.match(r'bb(\d+)(?: \(cleanup\))?: \{$', s)
                        if mm:
                            cur = []; f.blocks[int(mm.group(1))] = cur
                        elif s != '}' and cur is not None and s:
                            cur.append(s)
                    i += 1
                fns[f.name] = f
        i += 1
    return fns

if __name__ == '__main__':
    fns = parse_mir(open(sys.argv[1]).read())
    print(len(fns))
    for k in list(fns)[:10]: print(k, fns[k].nargs, len(fns[k].blocks))
