"""crossbeam_channel::unbounded as a lossless, non-duplicating FIFO with sender/receiver counts.
try_recv honours a harness-controlled *visibility cut* (hooks['chan_cut']): every interleaving of a poll with
the producer's sends is equivalent to the poll seeing a prefix of the messages sent so far."""
import z3
from .engine import *
from .models import deref, d1, unguard, It

class Hang(BoundExceeded): pass

class Chan:
    def __init__(self, cap=None): self.q = []; self.head = 0; self.senders = 1; self.receivers = 1; self.sent = 0; self.cap = cap
    def full(self): return self.cap is not None and len(self.q) - self.head >= self.cap
class SenderObj:
    def __init__(self, ch): self.ch = ch; self.alive = True
    def on_drop(self, e):
        if self.alive: self.alive = False; self.ch.senders -= 1
    def clone(self, e): self.ch.senders += 1; return SenderObj(self.ch)
    def __repr__(self): return 'Sender'
class ReceiverObj:
    def __init__(self, ch): self.ch = ch; self.alive = True
    def on_drop(self, e):
        if self.alive: self.alive = False; self.ch.receivers -= 1
    def clone(self, e): self.ch.receivers += 1; return ReceiverObj(self.ch)
    def __repr__(self): return 'Receiver'

LOCAL = {}
def lmodel(*names):
    def deco(f):
        f.model_name = 'crossbeam:' + names[0]
        for n in names: LOCAL[n] = f
        return f
    return deco

@lmodel('unbounded', 'crossbeam_channel::unbounded')
def _unbounded(e, c, a):
    ch = Chan()
    e.hooks.setdefault('channels', []).append(ch)
    return Struct([SenderObj(ch), ReceiverObj(ch)])
@lmodel('bounded', 'crossbeam_channel::bounded')
def _bounded(e, c, a):
    ch = Chan(cap=e.concretize(a[0]))
    e.hooks.setdefault('channels', []).append(ch)
    return Struct([SenderObj(ch), ReceiverObj(ch)])
@lmodel('Sender::send')
def _send(e, c, a):
    s = unguard(a[0])
    if s.ch.receivers == 0: return Err(Struct([a[1]]))
    if s.ch.full():
        # a blocking send on a full bounded channel waits for the consumer: the harness schedules the consumer now
        h = e.hooks.get('chan_full')
        if h is not None: h(e, s.ch)
        if s.ch.full(): raise Hang('send() on a full bounded channel and no consumer makes room: blocks forever')
    s.ch.q.append(a[1]); s.ch.sent += 1
    return Ok(UNIT)
@lmodel('Sender::try_send')
def _try_send(e, c, a):
    s = unguard(a[0])
    if s.ch.receivers == 0: return Err(Enum('Disconnected', [a[1]], 'TrySendError'))
    if s.ch.full(): return Err(Enum('Full', [a[1]], 'TrySendError'))
    s.ch.q.append(a[1]); s.ch.sent += 1
    return Ok(UNIT)
@lmodel('Sender::is_full')
def _is_full(e, c, a): return unguard(a[0]).ch.full()
@lmodel('Sender::len')
def _slen(e, c, a):
    ch = unguard(a[0]).ch; return len(ch.q) - ch.head
@lmodel('Sender::is_empty')
def _sis_empty(e, c, a):
    ch = unguard(a[0]).ch; return ch.head >= len(ch.q)
def next_visible(e, ch):
    """is the next queued message already visible to the polling thread?  A harness may make this a symbolic
    condition (hooks['chan_cut'](e, ch) -> z3 Bool): the poll then sees an arbitrary prefix of what was sent."""
    if ch.head >= len(ch.q): return False
    cut = e.hooks.get('chan_cut')
    if cut is None: return True
    return e.branch(cut(e, ch))
def visible(e, ch):
    return len(ch.q)
@lmodel('Receiver::try_recv')
def _try_recv(e, c, a):
    r = unguard(a[0]); ch = r.ch
    if next_visible(e, ch):
        m = ch.q[ch.head]; ch.head += 1; return Ok(m)
    if ch.senders == 0 and ch.head >= len(ch.q): return Err(Enum('Disconnected', [], 'TryRecvError'))
    return Err(Enum('Empty', [], 'TryRecvError'))
@lmodel('Receiver::recv')
def _recv(e, c, a):
    r = unguard(a[0]); ch = r.ch
    if ch.head < len(ch.q):
        m = ch.q[ch.head]; ch.head += 1; return Ok(m)
    if ch.senders == 0: return Err(UNIT)
    raise Hang('recv() on an empty channel whose sender is still alive: blocks forever')
@lmodel('Receiver::iter', 'Receiver::into_iter', '<Receiver as IntoIterator>::into_iter', '<&Receiver as IntoIterator>::into_iter')
def _iter(e, c, a):
    r = unguard(a[0]); ch = r.ch
    def nxt(e_):
        if ch.head < len(ch.q):
            m = ch.q[ch.head]; ch.head += 1; return m
        if ch.senders == 0: return None
        raise Hang('iteration over a channel whose sender was never dropped: blocks forever')
    return It(nxt)
@lmodel('Receiver::try_iter')
def _try_iter(e, c, a):
    r = unguard(a[0]); ch = r.ch
    def nxt(e_):
        if ch.head < visible(e, ch):
            m = ch.q[ch.head]; ch.head += 1; return m
        return None
    return It(nxt)
@lmodel('<Sender as Clone>::clone', '<Receiver as Clone>::clone')
def _clone(e, c, a): return unguard(a[0]).clone(e)
@lmodel('Receiver::is_empty')
def _is_empty(e, c, a):
    ch = unguard(a[0]).ch; return ch.head >= len(ch.q)
@lmodel('Receiver::len')
def _len(e, c, a):
    ch = unguard(a[0]).ch; return len(ch.q) - ch.head

def install(e):
    e.models.update(LOCAL)
