def install(e): pass
