"""Models of std functions for the MIR symbolic executor.

Each model implements the documented contract of a library function that has no MIR in the crate's dump.
They are trusted base; engine validation (concrete differential runs against the native build) and
replay-before-reporting keep them honest.  Names follow the dispatch keys of Engine.find_model.
"""
import re
import z3
from .engine import *

M = {}
def model(*names):
    def deco(f):
        f.model_name = names[0]
        for n in names: M[n] = f
        return f
    return deco

def deref(v):
    while isinstance(v, Ref): v = v.get()
    return v
def d1(v):
    return v.get() if isinstance(v, Ref) else v
def unguard(v):
    """strip references, guards, Arc/RwLock wrappers down to the payload"""
    while True:
        if isinstance(v, Ref): v = v.get()
        elif isinstance(v, CellObj) and v.kind in ('guard', 'arc', 'rwlock', 'refcell', 'box'):
            v = v.c[0]
        else: return v

# ---- log ----
@model('max_level', 'log::max_level')
def _max_level(e, c, a): return Enum('Off', [], 'LevelFilter')

def ordcmp(e, c, a, accept):
    # provided PartialOrd methods via partial_cmp of the impl
    callee = re.sub(r'>::\w+$', '>::partial_cmp', c)
    f = e.resolve(callee)
    if f is None:
        x, y = deref(a[0]), deref(a[1])
        if isinstance(x, (int, bool)) or is_sym(x):
            op = {('Less',): 'Lt', ('Less', 'Equal'): 'Le', ('Greater',): 'Gt', ('Greater', 'Equal'): 'Ge'}[accept]
            return e.binop(op, x, y, 'usize')
        if isinstance(x, (Enum, Struct, VecObj, StrBuf, str)):       # std types (Option<_>, tuples, ...): derived lexicographic order
            return M['Ord::cmp'](e, c, a).v in accept
        raise Unsupported('no partial_cmp for ' + c)
    r = e.call_mir(f, a)       # Option<Ordering>
    assert r.v == 'Some'
    return r.f[0].v in accept
@model('*::le')
def _le(e, c, a):
    x, y = deref(a[0]), deref(a[1])
    if isinstance(x, Enum) and isinstance(y, Enum) and 'Level' in c:
        return e.enums['Level'].index(x.v) <= e.enums['LevelFilter'].index(y.v)
    return ordcmp(e, c, a, ('Less', 'Equal'))
@model('*::lt')
def _lt(e, c, a): return ordcmp(e, c, a, ('Less',))
@model('*::gt')
def _gt(e, c, a): return ordcmp(e, c, a, ('Greater',))
@model('*::ge')
def _ge(e, c, a): return ordcmp(e, c, a, ('Greater', 'Equal'))
@model('*::ne')
def _ne(e, c, a):
    f = e.resolve(re.sub(r'>::ne$', '>::eq', c))
    if f is None: return e.not_(M['*::eq'](e, c, a))
    return e.not_(e.call_mir(f, a))

def int_ty(c):
    m = re.match(r'^<(\w+) as', c)
    return m.group(1) if m else 'usize'

@model('PartialOrd::partial_cmp')
def _partial_cmp(e, c, a):
    x, y = deref(a[0]), deref(a[1])
    if isinstance(x, (Struct, VecObj, StrBuf, str, Enum)): return Some(M['Ord::cmp'](e, c, a))
    if isinstance(x, bool) or (is_sym(x) and z3.is_bool(x)):
        x, y = e.branch(x), e.branch(y)
        return Some(Enum('Less' if x < y else 'Equal' if x == y else 'Greater', [], 'Ordering'))
    if isinstance(x, int) or is_sym(x):
        ty = int_ty(c)
        if e.branch(e.binop('Lt', x, y, ty)): return Some(Enum('Less', [], 'Ordering'))
        if e.branch(e.binop('Eq', x, y, ty)): return Some(Enum('Equal', [], 'Ordering'))
        return Some(Enum('Greater', [], 'Ordering'))
    raise Unsupported('partial_cmp on %r' % (x,))
@model('Ord::cmp')
def _cmp(e, c, a):
    x, y = deref(a[0]), deref(a[1])
    if isinstance(x, Struct) and isinstance(y, Struct):          # tuples / newtypes: lexicographic over the fields
        for p, q in zip(x.f, y.f):
            o = _cmp(e, c, [p, q])
            if o.v != 'Equal': return o
        return Enum('Equal', [], 'Ordering')
    if isinstance(x, VecObj) and isinstance(y, VecObj):
        for p, q in zip(x.items, y.items):
            o = _cmp(e, c, [p, q])
            if o.v != 'Equal': return o
        return Enum('Less' if len(x.items) < len(y.items) else 'Equal' if len(x.items) == len(y.items) else 'Greater', [], 'Ordering')
    if isinstance(x, Enum) and x.ty == 'Option':
        if x.v != y.v: return Enum('Less' if x.v == 'None' else 'Greater', [], 'Ordering')
        return _cmp(e, c, [x.f[0], y.f[0]]) if x.f else Enum('Equal', [], 'Ordering')
    if isinstance(x, (StrBuf, str)) or type(x).__name__ == 'SymStr':
        def tobytes(v):
            v = v.s if isinstance(v, StrBuf) else v
            if isinstance(v, str): return v.encode()
            bs = v.bytes()                      # SymStr: a piece of the input text
            if not all(isinstance(b, int) for b in bs): raise Unsupported('ordering of symbolic strings')
            return bytes(bs)
        xb, yb = tobytes(x), tobytes(y)
        return Enum('Less' if xb < yb else 'Equal' if xb == yb else 'Greater', [], 'Ordering')
    return _partial_cmp(e, c, a).f[0]
@model('std::cmp::min', 'std::cmp::max', 'cmp::min', 'cmp::max')
def _minmax(e, c, a):
    x, y = a
    if isinstance(x, (Struct, Enum)):
        m = re.search(r'(?:min|max)::<(.*)>$', c)
        f = e.resolve('<%s as Ord>::cmp' % m.group(1)) if m else None
        if f is None: raise Unsupported('min/max on %r' % (x,))
        o = e.call_mir(f, [Ref([y], 0), Ref([x], 0)])
        lt = o.v == 'Less'
        if strip_generics(c).endswith('min'): return y if lt else x
        return x if lt else y        # std::cmp::max returns the second argument when equal; identical values here
    lt = e.branch(e.binop('Lt', y, x, 'usize'))
    if strip_generics(c).endswith('min'): return y if lt else x
    return x if lt else y
@model('Ord::min')
def _omin(e, c, a): return a[1] if e.branch(e.binop('Lt', a[1], a[0], int_ty(c))) else a[0]
@model('Ord::max')
def _omax(e, c, a): return a[0] if e.branch(e.binop('Lt', a[1], a[0], int_ty(c))) else a[1]
@model('num::pow')
def _pow(e, c, a):
    b, ex = a
    ex = e.concretize(ex)
    r = 1
    for _ in range(ex):
        p = e.binop('MulWithOverflow', r, b, 'usize')
        if e.branch(p.f[1]): raise RustPanic('attempt to multiply with overflow (pow)')
        r = p.f[0]
    return r

# ---- Box / vec! ----
@model('Box::new_uninit')
def _box_uninit(e, c, a): return CellObj(None, 'box')
@model('boxed::box_assume_init_into_vec_unsafe')
def _box_into_vec(e, c, a):
    arr = a[0].c[0]
    return VecObj(list(arr.f))
@model('Box::new')
def _box_new(e, c, a): return CellObj(a[0], 'box')

# ---- Vec / slices ----
@model('Vec::new')
def _vec_new(e, c, a): return VecObj()
@model('Vec::with_capacity')
def _vec_cap(e, c, a): return VecObj()
@model('Vec::len')
def _vec_len(e, c, a): return len(unguard(a[0]).items)
@model('Vec::push')
def _vec_push(e, c, a): unguard(a[0]).items.append(a[1]); return UNIT
@model('Vec::pop')
def _vec_pop(e, c, a):
    v = unguard(a[0])
    return Some(v.items.pop()) if v.items else NONE()
@model('Vec::last', 'slice::last')
def _vec_last(e, c, a):
    v = a[0] if isinstance(a[0], SliceRef) else unguard(a[0])
    if isinstance(v, VecObj): return Some(Ref(v.items, len(v.items) - 1)) if v.items else NONE()
    return Some(Ref(v.items, v.start + v.n - 1)) if v.n else NONE()
@model('slice::len')
def _slice_len(e, c, a):
    v = a[0]
    if isinstance(v, SliceRef): return v.n
    v = unguard(v)
    if isinstance(v, VecObj): return len(v.items)
    if isinstance(v, Struct): return len(v.f)
    raise Unsupported('slice::len on %r' % (v,))
@model('slice::get', 'Vec::get')
def _slice_get(e, c, a):
    v = a[0] if isinstance(a[0], SliceRef) else unguard(a[0])
    i = e.concretize(a[1])
    if isinstance(v, VecObj): return Some(Ref(v.items, i)) if i < len(v.items) else NONE()
    return Some(Ref(v.items, v.start + i)) if i < v.n else NONE()
@model('slice::is_empty')
def _slice_is_empty(e, c, a): return _slice_len(e, c, a) == 0

def as_slice(e, v):
    if isinstance(v, SliceRef): return v
    v = unguard(v)
    if isinstance(v, VecObj): return SliceRef(v.items, 0, len(v.items))
    if isinstance(v, Struct): return SliceRef(v.f, 0, len(v.f))
    raise Unsupported('not a slice: %r' % (v,))

@model('*::index', '*::index_mut')
def _index(e, c, a):
    v = a[0] if isinstance(a[0], SliceRef) else unguard(a[0])
    if isinstance(a[1], Struct):      # Range / RangeTo / RangeFrom
        sl = as_slice(e, v)
        if 'RangeInclusive' in c or 'RangeToInclusive' in c:
            lo = 0 if 'RangeToInclusive' in c else e.concretize(a[1].f[0])
            hi = e.concretize(a[1].f[0 if 'RangeToInclusive' in c else 1])
            if hi == (1 << 64) - 1: raise RustPanic('range end overflows')
            hi += 1
        elif 'RangeFrom' in c: lo, hi = e.concretize(a[1].f[0]), sl.n
        elif 'RangeTo' in c: lo, hi = 0, e.concretize(a[1].f[0])
        elif 'RangeFull' in c or not a[1].f: lo, hi = 0, sl.n
        else: lo, hi = e.concretize(a[1].f[0]), e.concretize(a[1].f[1])
        if lo > hi or hi > sl.n: raise RustPanic('slice range out of bounds')
        return SliceRef(sl.items, sl.start + lo, hi - lo)
    if isinstance(v, MapObj):
        ent = map_find(e, v, deref(a[1]))
        if ent is None: raise RustPanic('HashMap index: key not found')
        return Ref(ent[1], 0)
    i = e.concretize(a[1])
    if isinstance(v, SliceRef):
        if i >= v.n: raise RustPanic('index out of bounds: %d >= %d' % (i, v.n))
        return Ref(v.items, v.start + i)
    if isinstance(v, VecObj):
        if i >= len(v.items): raise RustPanic('index out of bounds: %d >= %d' % (i, len(v.items)))
        return Ref(v.items, i)
    if isinstance(v, Struct):
        if i >= len(v.f): raise RustPanic('index out of bounds')
        return Ref(v.f, i)
    raise Unsupported('index on %r' % (v,))
@model('*::deref', '*::deref_mut', 'Vec::as_slice', 'Vec::as_mut_slice')
def _deref(e, c, a):
    v = d1(a[0])
    if isinstance(v, CellObj) and v.kind == 'guard': return v.c[0]
    if isinstance(v, VecObj): return SliceRef(v.items, 0, len(v.items))
    if isinstance(v, CellObj): return Ref(v.c, 0)
    if isinstance(v, StrBuf): return v.s
    f = e.resolve(c)
    if f: return e.call_mir(f, a)
    raise Unsupported('deref on %r' % (v,))
@model('vec::from_elem')
def _from_elem(e, c, a): return VecObj([clone_val(e, a[0]) for _ in range(e.concretize(a[1]))])
@model('slice::to_vec', 'slice::into_vec')
def _to_vec(e, c, a):
    v = a[0]
    if isinstance(v, CellObj) and v.kind == 'box': v = v.c[0]
    if isinstance(v, Struct): return VecObj(list(v.f))
    return VecObj([clone_val(e, x) for x in as_slice(e, v).aslist()])
@model('slice::concat')
def _concat(e, c, a):
    out = []
    for part in as_slice(e, a[0]).aslist():
        out.extend(clone_val(e, x) for x in as_slice(e, part).aslist())
    return VecObj(out)
@model('Vec::append')
def _append(e, c, a):
    dst, src = unguard(a[0]), unguard(a[1]); dst.items.extend(src.items); src.items[:] = []; return UNIT
@model('Vec::is_empty')
def _vec_is_empty(e, c, a): return len(unguard(a[0]).items) == 0
@model('Vec::clear')
def _vec_clear(e, c, a): unguard(a[0]).items[:] = []; return UNIT
@model('Vec::retain')
def _retain(e, c, a):
    v = unguard(a[0]); keep = []
    for i, x in enumerate(list(v.items)):
        if e.branch(e.call_value(a[1], [Ref(v.items, i)])): keep.append(x)
    v.items[:] = keep; return UNIT
@model('Vec::reserve', 'Vec::shrink_to_fit')
def _reserve(e, c, a): return UNIT
@model('slice::contains')
def _slice_contains(e, c, a):
    s, x = as_slice(e, a[0]), a[1]
    m = re.search(r'impl \[(.*)\]>', c)
    f = None
    if m: f = e.resolve('<%s as PartialEq>::eq' % m.group(1))
    for i in range(s.n):
        r = e.call_mir(f, [Ref(s.items, s.start + i), x]) if f else e.eq_vals(s.items[s.start + i], x)
        if e.branch(r): return True
    return False
@model('slice::iter', 'slice::iter_mut')
def _slice_iter(e, c, a):
    v = as_slice(e, a[0])
    return it_list([Ref(v.items, v.start + i) for i in range(v.n)])
@model('slice::sort_unstable', 'slice::sort')
def _sort(e, c, a):
    v = as_slice(e, a[0]); xs = v.aslist()
    import functools
    def cmpf(x, y):
        o = M['Ord::cmp'](e, c, [Ref([x], 0), Ref([y], 0)])
        return {'Less': -1, 'Equal': 0, 'Greater': 1}[o.v]
    xs.sort(key=functools.cmp_to_key(cmpf))
    v.items[v.start:v.start + v.n] = xs
    return UNIT
@model('slice::sort_unstable_by', 'slice::sort_by')
def _sort_by(e, c, a):
    v = as_slice(e, a[0]); xs = v.aslist()
    import functools
    def cmpf(x, y):
        o = e.call_value(a[1], [Ref([x], 0), Ref([y], 0)])
        return {'Less': -1, 'Equal': 0, 'Greater': 1}[o.v]
    xs.sort(key=functools.cmp_to_key(cmpf))
    v.items[v.start:v.start + v.n] = xs
    return UNIT

# ---- HashMap / HashSet ----
@model('HashMap::new', 'HashMap::with_capacity')
def _map_new(e, c, a): return MapObj()
def ckey(v):
    """hashable canonical form of a fully concrete value (structural equality = python equality), None if any part is symbolic
    or of a kind not handled here (the caller then falls back to eq_vals)"""
    t = type(v)
    while t is Ref: v = v.get(); t = type(v)
    if t is int: return v
    if t is Struct:
        out = []
        for x in v.f:
            c = ckey(x)
            if c is None: return None
            out.append(c)
        return ('S', tuple(out))
    if t is bool: return ('b', v)
    if t is str: return ('s', v)
    if t is StrBuf: return ('s', v.s) if type(v.s) is str else None
    if t is Enum:
        out = []
        for x in v.f:
            c = ckey(x)
            if c is None: return None
            out.append(c)
        return ('E', v.v, tuple(out))
    return None

def map_find(e, m, k):
    kc = ckey(k)
    if kc is not None:
        # concrete key: entries with concrete keys are compared without building z3 terms (same first-match order as below)
        try: cache = m.ck
        except AttributeError: cache = m.ck = {}
        for ent in m.e:
            hit = cache.get(id(ent))
            if hit is None or hit[0] is not ent or hit[2] is not ent[0]:
                hit = (ent, ckey(ent[0]), ent[0]); cache[id(ent)] = hit
            ec = hit[1]
            if ec is None:
                if e.branch(e.eq_vals(ent[0], k)): return ent
            elif ec == kc: return ent
        return None
    for ent in m.e:
        if e.branch(e.eq_vals(ent[0], k)): return ent
    return None
@model('HashMap::get')
def _map_get(e, c, a):
    ent = map_find(e, unguard(a[0]), deref(a[1]))
    return Some(Ref(ent[1], 0)) if ent else NONE()
@model('HashMap::contains_key')
def _map_contains(e, c, a): return map_find(e, unguard(a[0]), deref(a[1])) is not None
@model('HashMap::insert')
def _map_insert(e, c, a):
    m = unguard(a[0]); ent = map_find(e, m, a[1])
    if ent:
        old = ent[1][0]; ent[1][0] = a[2]; return Some(old)
    m.e.append([a[1], [a[2]]]); return NONE()
@model('HashMap::len')
def _map_len(e, c, a): return len(unguard(a[0]).e)
@model('HashMap::iter')
def _map_iter(e, c, a):
    m = unguard(a[0])
    return it_list([Struct([Ref(ent, 0), Ref(ent[1], 0)]) for ent in hash_order(e, m.e)])
@model('HashSet::new', 'HashSet::with_capacity')
def _set_new(e, c, a): return SetObj()
@model('HashSet::contains')
def _set_contains(e, c, a):
    s = unguard(a[0]); k = deref(a[1])
    kc = ckey(k)
    for x in s.e:
        xc = ckey(x) if kc is not None else None
        if xc is not None:
            if xc == kc: return True
        elif e.branch(e.eq_vals(x, k)): return True
    return False
@model('HashSet::insert')
def _set_insert(e, c, a):
    s = unguard(a[0])
    kc = ckey(a[1])
    for x in s.e:
        xc = ckey(x) if kc is not None else None
        if xc is not None:
            if xc == kc: return False
        elif e.branch(e.eq_vals(x, a[1])): return False
    s.e.append(a[1]); return True
@model('HashSet::len')
def _set_len(e, c, a): return len(unguard(a[0]).e)
@model('HashSet::is_empty')
def _set_is_empty(e, c, a): return len(unguard(a[0]).e) == 0
@model('HashSet::iter')
def _set_iter(e, c, a):
    s = unguard(a[0]); return it_list([Ref(s.e, i) for i in hash_order(e, list(range(len(s.e))))])
@model('HashSet::union')
def _set_union(e, c, a):
    s1, s2 = unguard(a[0]), unguard(a[1])
    vals = [Ref(s1.e, i) for i in range(len(s1.e))]
    for j, y in enumerate(s2.e):
        if not any(e.branch(e.eq_vals(x, y)) for x in s1.e): vals.append(Ref(s2.e, j))
    return it_list(hash_order(e, vals))

def hash_order(e, xs):
    """iteration order of a hash container: unspecified.  With hooks['hash_perm'] set by a harness every
    permutation is explored (symbolic permutation, forks); otherwise insertion order."""
    if not e.hooks.get('hash_perm') or len(xs) < 2: return list(xs)
    xs = list(xs); out = []
    while xs:
        k = e.choose(len(xs), 'hash-order')
        out.append(xs.pop(k))
    return out

# ---- RefCell / Arc / RwLock ----
@model('RefCell::new')
def _refcell_new(e, c, a): return CellObj(a[0], 'refcell')
@model('RefCell::borrow', 'RefCell::borrow_mut')
def _borrow(e, c, a): return CellObj(Ref(unguard_cell(a[0]).c, 0), 'guard')
def unguard_cell(v):
    while isinstance(v, Ref): v = v.get()
    return v
@model('Arc::new')
def _arc_new(e, c, a): return CellObj(a[0], 'arc')
@model('RwLock::new')
def _rwlock_new(e, c, a): return CellObj(a[0], 'rwlock')
@model('RwLock::read', 'RwLock::write')
def _rw_read(e, c, a):
    cell = unguard_cell(a[0])
    while isinstance(cell, CellObj) and cell.kind == 'arc': cell = cell.c[0]
    return Ok(CellObj(Ref(cell.c, 0), 'guard'))
@model('Arc::clone')
def _arc_clone(e, c, a): return unguard_cell(a[0])
@model('Mutex::new')
def _mutex_new(e, c, a): return CellObj(a[0], 'mutex')
@model('Mutex::lock')
def _mutex_lock(e, c, a):
    # single-threaded: the lock is always free and never poisoned
    cell = unguard_cell(a[0])
    while isinstance(cell, CellObj) and cell.kind in ('arc', 'data'): cell = cell.c[0]
    return Ok(CellObj(Ref(cell.c, 0), 'guard'))

# ---- Option / Result ----
@model('Option::expect', 'Result::expect', 'Option::unwrap', 'Result::unwrap')
def _expect(e, c, a):
    if a[0].v in ('Some', 'Ok'): return a[0].f[0]
    raise RustPanic('expect/unwrap failed: %r' % (a[1] if len(a) > 1 else '',))
@model('Option::is_some')
def _is_some(e, c, a): return deref(a[0]).v == 'Some'
@model('Option::is_none')
def _is_none(e, c, a): return deref(a[0]).v == 'None'
@model('Result::is_ok')
def _is_ok(e, c, a): return deref(a[0]).v == 'Ok'
@model('Result::is_err')
def _is_err(e, c, a): return deref(a[0]).v == 'Err'
@model('Result::ok')
def _res_ok(e, c, a): return Some(a[0].f[0]) if a[0].v == 'Ok' else NONE()
@model('Result::and')
def _res_and(e, c, a): return a[1] if a[0].v == 'Ok' else a[0]
@model('Option::and_then')
def _and_then(e, c, a): return e.call_value(a[1], [a[0].f[0]]) if a[0].v == 'Some' else a[0]
@model('Option::ok_or')
def _ok_or(e, c, a): return Ok(a[0].f[0]) if a[0].v == 'Some' else Err(a[1])
@model('Option::unwrap_or')
def _unwrap_or(e, c, a): return a[0].f[0] if a[0].v in ('Some', 'Ok') else a[1]
@model('Option::as_ref', 'Option::as_mut')
def _as_ref(e, c, a):
    o = deref(a[0])
    return Some(Ref(o.f, 0)) if o.v == 'Some' else NONE()
@model('Option::take')
def _take(e, c, a):
    r = a[0]; o = r.get(); r.set(NONE()); return o
@model('bool::then_some', 'Option::then_some')
def _then_some(e, c, a): return Some(a[1]) if e.branch(a[0]) else NONE()
@model('bool::then')
def _then(e, c, a): return Some(e.call_value(a[1], [])) if e.branch(a[0]) else NONE()
@model('Try::branch')
def _try_branch(e, c, a):
    v = a[0]
    if v.v in ('Some', 'Ok'): return Enum('Continue', [v.f[0]], 'ControlFlow')
    return Enum('Break', [NONE() if v.v == 'None' else Err(v.f[0])], 'ControlFlow')
@model('FromResidual::from_residual')
def _from_residual(e, c, a): return a[0]

@model('Into::into', 'From::from', 'TryInto::try_into', 'TryFrom::try_from')
def _into(e, c, a):
    j = find_matching(c, 0)
    src, tr = c[1:j].rsplit(' as ', 1)
    is_try = 'Try' in tr.split('<')[0]
    m = re.match(r'^(?:std::convert::)?(?:Try)?(Into|From)<(.*)>$', tr.strip())
    if m.group(1) == 'Into': s_ty, d_ty = src, m.group(2)
    else: s_ty, d_ty = m.group(2), src
    dst = strip_generics(d_ty).split('::')[-1].strip()
    srcl = strip_generics(s_ty).split('::')[-1].strip()
    v = a[0]
    if dst in INT_TYPES and (srcl in INT_TYPES or srcl == 'bool'):
        w, sg = INT_TYPES[dst]
        if is_try:
            sw, ssg = INT_TYPES[srcl]
            if sw <= w and not ssg: return Ok(z3.ZeroExt(w - sw, v) if is_sym(v) and w > sw else v)
            fits = e.binop('Le', v, (1 << (w - (1 if sg else 0))) - 1, srcl)
            if e.branch(fits):
                return Ok(z3.Extract(w - 1, 0, v) if is_sym(v) else v)
            return Err(UNIT)
        if is_sym(v):
            if z3.is_bool(v): return z3.If(v, z3.BitVecVal(1, w), z3.BitVecVal(0, w))
            return z3.ZeroExt(w - v.size(), v) if v.size() < w else v
        return int(v)
    if dst == srcl: return v
    cands = [f for f in e.by_method.get('from', []) if f.impl_span and e.impl_header(f.impl_span) and e.impl_header(f.impl_span)[1] == dst and e.impl_header(f.impl_span)[0] == 'From']
    if len(cands) > 1:
        want = strip_generics(s_ty).replace(' ', '')
        c2 = [f for f in cands if strip_generics(f.params[0][1]).replace(' ', '').split('::')[-1] == want.split('::')[-1]]
        cands = c2 or cands
    if cands: return e.call_mir(cands[0], a)
    if isinstance(v, SliceRef) and dst == 'Vec': return VecObj([clone_val(e, x) for x in v.aslist()])
    if isinstance(v, str) and dst == 'String': return StrBuf(v)
    if type(v).__name__ == 'SymStr' and dst == 'String': return StrBuf(v)
    raise Unsupported('into ' + c)

# ---- iterators ----
class It:
    def __init__(self, nxt, back=None): self.nxt = nxt; self.back = back
def as_it(e, c, v):
    if isinstance(v, It): return v
    if isinstance(v, Ref) and isinstance(v.get(), It): return v.get()
    if isinstance(v, (Struct, Ref)) and c.startswith('<'):
        j = find_matching(c, 0)
        ty = c[1:j].rsplit(' as ', 1)[0]
        f = e.resolve('<%s as Iterator>::next' % ty)
        if f is not None:
            cell = v if isinstance(v, Ref) else Ref([v], 0)
            def nxt(e_):
                r = e.call_mir(f, [cell])
                return r.f[0] if r.v == 'Some' else None
            return It(nxt)
    if isinstance(v, VecObj): return it_list(list(v.items))
    if isinstance(v, Struct) and 'RangeInclusive' in c:
        lo, hi = e.concretize(v.f[0]), e.concretize(v.f[1]); return it_list(list(range(lo, hi + 1)))
    if isinstance(v, Struct) and len(v.f) == 2 and 'Range' in c:
        lo, hi = e.concretize(v.f[0]), e.concretize(v.f[1]); return it_list(list(range(lo, hi)))
    if isinstance(v, Enum) and v.ty == 'Option': return it_list(list(v.f))
    raise Unsupported('not an iterator: %r in %s' % (v, c))
def it_list(vals):
    st = {'i': 0, 'j': len(vals)}
    def nxt(e):
        if st['i'] < st['j']: st['i'] += 1; return vals[st['i'] - 1]
        return None
    def back(e):
        if st['i'] < st['j']: st['j'] -= 1; return vals[st['j']]
        return None
    r = It(nxt, back); r.vals = vals; r.st = st
    return r

@model('*::copied', '*::cloned')
def _copied(e, c, a):
    it = a[0]
    if isinstance(it, Enum):   # Option<&T>::copied / cloned
        return Some(clone_val(e, deref(it.f[0]))) if it.v == 'Some' else it
    it = as_it(e, c, it)
    return It(lambda e_: (lambda v: None if v is None else clone_val(e, d1(v)))(it.nxt(e_)),
              (lambda e_: (lambda v: None if v is None else clone_val(e, d1(v)))(it.back(e_))) if it.back else None)
@model('IntoIterator::into_iter', '*::into_iter')
def _into_iter(e, c, a):
    v = a[0]
    if isinstance(v, It): return v
    if isinstance(v, Ref) and isinstance(v.get(), It): return v.get()
    if isinstance(v, VecObj): return it_list(list(v.items))
    if isinstance(v, Struct) and 'RangeInclusive' in c:
        lo, hi = e.concretize(v.f[0]), e.concretize(v.f[1]); return it_list(list(range(lo, hi + 1)))
    if isinstance(v, Struct) and 'Range' in c:
        lo, hi = e.concretize(v.f[0]), e.concretize(v.f[1]); return it_list(list(range(lo, hi)))
    if isinstance(v, Ref) and isinstance(v.get(), VecObj): return it_list([Ref(v.get().items, i) for i in range(len(v.get().items))])
    if isinstance(v, SliceRef): return it_list([Ref(v.items, v.start + i) for i in range(v.n)])
    if isinstance(v, Ref) and isinstance(v.get(), Struct): return it_list([Ref(v.get().f, i) for i in range(len(v.get().f))])
    if isinstance(v, Ref) and isinstance(v.get(), SetObj): return _set_iter(e, c, a)
    if isinstance(v, Ref) and isinstance(v.get(), MapObj): return _map_iter(e, c, a)
    if isinstance(v, SetObj): return it_list(hash_order(e, list(v.e)))
    if isinstance(v, MapObj): return it_list([Struct([ent[0], ent[1][0]]) for ent in hash_order(e, v.e)])
    if isinstance(v, Struct) and c.startswith('<['): return it_list(list(v.f))     # array by value
    return as_it(e, c, v)
@model('Iterator::next', '*::next')
def _next(e, c, a):
    it = deref(a[0])
    if isinstance(it, Struct) and 'RangeInclusive' in c:
        lo, hi, done = it.f
        if done or not e.branch(e.binop('Le', lo, hi, 'usize')): return NONE()
        if e.branch(e.binop('Eq', lo, hi, 'usize')): it.f[2] = True
        else: it.f[0] = e.binop('Add', lo, 1, 'usize')
        return Some(lo)
    if isinstance(it, Struct) and 'Range' in c:     # Range<usize> by value in a local
        lo, hi = it.f
        if e.branch(e.binop('Lt', lo, hi, 'usize')):
            it.f[0] = e.binop('Add', lo, 1, 'usize'); return Some(lo)
        return NONE()
    return some(it.nxt(e))
@model('*::next_back')
def _next_back(e, c, a): return some(deref(a[0]).back(e))
@model('*::enumerate')
def _enumerate(e, c, a):
    it = as_it(e, c, a[0]); st = {'i': 0}
    if getattr(it, 'vals', None) is not None and it.st['i'] == 0 and it.st['j'] == len(it.vals):
        return it_list([Struct([i, v]) for i, v in enumerate(it.vals)])
    def nxt(e_):
        v = it.nxt(e_)
        if v is None: return None
        st['i'] += 1; return Struct([st['i'] - 1, v])
    return It(nxt)
@model('*::rev')
def _rev(e, c, a):
    it = as_it(e, c, a[0])
    if it.back is None: raise Unsupported('rev on single-ended iterator')
    return It(it.back, it.nxt)
@model('*::filter')
def _filter(e, c, a):
    it, f = a
    it = as_it(e, c, it)
    def mk(src):
        def nxt(e_):
            while True:
                v = src(e_)
                if v is None: return None
                if e.branch(e.call_value(f, [Ref([v], 0)])): return v
        return nxt
    return It(mk(it.nxt), mk(it.back) if it.back else None)
@model('*::map')
def _map(e, c, a):
    it, f = a
    if isinstance(it, Enum) and ('Option' in c.split(' as ')[0] or 'Result' in c.split(' as ')[0] or not c.startswith('<')):
        if it.v in ('Some', 'Ok'): return Enum(it.v, [e.call_value(f, [it.f[0]])], it.ty)
        return it
    it = as_it(e, c, it)
    def mk(src):
        def nxt(e_):
            v = src(e_)
            return None if v is None else e.call_value(f, [v])
        return nxt
    return It(mk(it.nxt), mk(it.back) if it.back else None)
@model('Result::map_err')
def _map_err(e, c, a):
    if a[0].v == 'Err': return Err(e.call_value(a[1], [a[0].f[0]]))
    return a[0]
@model('*::filter_map')
def _filter_map(e, c, a):
    it, f = a
    it = as_it(e, c, it)
    def mk(src):
        def nxt(e_):
            while True:
                v = src(e_)
                if v is None: return None
                r = e.call_value(f, [v])
                if r.v == 'Some': return r.f[0]
        return nxt
    return It(mk(it.nxt), mk(it.back) if it.back else None)
@model('*::zip')
def _zip(e, c, a):
    x, y = a
    x = as_it(e, c, x)
    if not isinstance(y, It): y = _into_iter(e, c, [y])
    def nxt(e_):
        p = x.nxt(e_)
        if p is None: return None
        q = y.nxt(e_)
        if q is None: return None
        return Struct([p, q])
    return It(nxt)
@model('*::chain')
def _chain(e, c, a):
    x = as_it(e, c, a[0]); y = a[1] if isinstance(a[1], It) else _into_iter(e, c, [a[1]])
    def nxt(e_):
        v = x.nxt(e_)
        return v if v is not None else y.nxt(e_)
    return It(nxt)
@model('*::fold')
def _fold(e, c, a):
    it, acc, f = a
    it = it if isinstance(it, It) else _into_iter(e, c, [it])
    while True:
        v = it.nxt(e)
        if v is None: return acc
        acc = e.call_value(f, [acc, v])
@model('*::for_each')
def _for_each(e, c, a):
    it, f = (a[0] if isinstance(a[0], It) else _into_iter(e, c, [a[0]])), a[1]
    while True:
        v = it.nxt(e)
        if v is None: return UNIT
        e.call_value(f, [v])
@model('*::all')
def _all(e, c, a):
    it, f = as_it(e, c, a[0]), a[1]
    while True:
        v = it.nxt(e)
        if v is None: return True
        if not e.branch(e.call_value(f, [v])): return False
@model('*::any')
def _any(e, c, a):
    it, f = as_it(e, c, a[0]), a[1]
    while True:
        v = it.nxt(e)
        if v is None: return False
        if e.branch(e.call_value(f, [v])): return True
@model('*::count')
def _count(e, c, a):
    it = as_it(e, c, a[0]); n = 0
    while it.nxt(e) is not None: n += 1
    return n
@model('*::find')
def _find(e, c, a):
    it, f = as_it(e, c, a[0]), a[1]
    while True:
        v = it.nxt(e)
        if v is None: return NONE()
        if e.branch(e.call_value(f, [Ref([v], 0)])): return Some(v)
@model('*::position')
def _position(e, c, a):
    it, f = as_it(e, c, a[0]), a[1]; i = 0
    while True:
        v = it.nxt(e)
        if v is None: return NONE()
        if e.branch(e.call_value(f, [v])): return Some(i)
        i += 1
@model('*::min_by')
def _min_by(e, c, a):
    it, f = as_it(e, c, a[0]), a[1]
    best = it.nxt(e)
    if best is None: return NONE()
    while True:
        v = it.nxt(e)
        if v is None: return Some(best)
        o = e.call_value(f, [Ref([best], 0), Ref([v], 0)])
        if o.v == 'Greater': best = v          # std: the first minimum is kept on Equal
@model('*::max_by')
def _max_by(e, c, a):
    it, f = as_it(e, c, a[0]), a[1]
    best = it.nxt(e)
    if best is None: return NONE()
    while True:
        v = it.nxt(e)
        if v is None: return Some(best)
        o = e.call_value(f, [Ref([best], 0), Ref([v], 0)])
        if o.v != 'Greater': best = v          # std: the last maximum is kept on Equal
@model('*::collect')
def _collect(e, c, a):
    it = as_it(e, c, a[0]); vals = []
    while True:
        v = it.nxt(e)
        if v is None: break
        vals.append(v)
    m = re.search(r'collect::<(.*)>$', c)
    target = strip_generics(m.group(1)).split('::')[-1] if m else 'Vec'
    if target == 'HashSet':
        s = SetObj()
        for v in vals:
            if not any(e.branch(e.eq_vals(x, v)) for x in s.e): s.e.append(v)
        return s
    if target == 'BTreeSet':
        s = SetObj()
        for v in vals:
            if not any(e.branch(e.eq_vals(x, v)) for x in s.e): s.e.append(v)
        ks = [ckey(x) for x in s.e]
        if any(k is None for k in ks): raise Unsupported('BTreeSet with symbolic keys')
        s.e[:] = [x for _, x in sorted(zip(ks, s.e), key=lambda p: p[0])]
        return s
    if target == 'String':
        out = []
        for v in vals:
            v = unguard(v)
            if isinstance(v, StrBuf): v = v.s
            if isinstance(v, str): out.append(v)
            elif isinstance(v, int): out.append(chr(v))
            elif is_sym(v): out.append(chr(e.concretize(v)))
            elif hasattr(v, 'bytes') and not any(is_sym(b) for b in v.bytes()): out.append(bytes(v.bytes()).decode())
            else: raise Unsupported('collect::<String> of %r' % (v,))
        return StrBuf(''.join(out))
    if target == 'Vec': return VecObj(vals)
    if target == 'HashMap':
        mo = MapObj()
        for v in vals: _map_insert(e, c, [mo, v.f[0], v.f[1]])
        return mo
    raise Unsupported('collect into ' + c)
@model('*::try_for_each')
def _try_for_each(e, c, a):
    it, f = as_it(e, c, a[0]), a[1]
    while True:
        v = it.nxt(e)
        if v is None: return Ok(UNIT)
        r = e.call_value(f, [v])
        if r.v in ('Err', 'None', 'Break'): return r
@model('*::try_fold')
def _try_fold(e, c, a):
    it, acc, f = as_it(e, c, a[0]), a[1], a[2]
    while True:
        v = it.nxt(e)
        if v is None: return Some(acc)      # the crate only uses Option as the Try type here
        r = e.call_value(f, [acc, v])
        if r.v in ('None', 'Err'): return r
        acc = r.f[0]

def clone_val(e, v):
    if isinstance(v, SetObj): return SetObj([e.copyval(x) for x in v.e])
    if isinstance(v, VecObj): return VecObj([clone_val(e, x) for x in v.items])
    if isinstance(v, MapObj):
        m = MapObj(); m.e = [[clone_val(e, k), [clone_val(e, val[0])]] for k, val in v.e]; return m
    if isinstance(v, Enum): return Enum(v.v, [clone_val(e, x) for x in v.f], v.ty)
    if isinstance(v, Struct): return Struct([clone_val(e, x) for x in v.f])
    if isinstance(v, StrBuf): return StrBuf(v.s)
    if isinstance(v, CellObj):
        if v.kind == 'arc': return v
        return CellObj(clone_val(e, v.c[0]), v.kind)
    if isinstance(v, (int, bool, str, Ref, SliceRef, FnRef, Closure)) or is_sym(v) or v is None: return v
    cl = getattr(v, 'clone', None)
    if cl is not None: return cl(e)
    if type(v).__name__ == 'SymStr': return v        # immutable view of the input text
    raise Unsupported('clone of %r' % (v,))
@model('Clone::clone', '*::clone')
def _clone(e, c, a):
    f = e.resolve(c)
    if f is not None: return e.call_mir(f, a)
    return clone_val(e, d1(a[0]))

@model('PartialEq::eq', '*::eq')
def _eq(e, c, a):
    x, y = a[0], a[1]
    if not isinstance(x, SliceRef): x = deref(x)
    if not isinstance(y, SliceRef): y = deref(y)
    if isinstance(x, VecObj): x = SliceRef(x.items, 0, len(x.items))
    if isinstance(y, VecObj): y = SliceRef(y.items, 0, len(y.items))
    if isinstance(x, SliceRef):
        if x.n != y.n: return False
        m = re.match(r'^<(?:Vec<|\[)(.*?)[>\]] as PartialEq', c)
        f = e.resolve('<%s as PartialEq>::eq' % m.group(1)) if m else None
        if f is not None:
            return e.and_all([e.call_mir(f, [Ref([p], 0), Ref([q], 0)]) for p, q in zip(x.aslist(), y.aslist())])
        return e.and_all([e.eq_vals(p, q) for p, q in zip(x.aslist(), y.aslist())])
    return e.eq_vals(x, y)

@model('Fn::call', 'FnMut::call_mut', 'FnOnce::call_once')
def _fncall(e, c, a):
    fv = a[0]; args = a[1]
    t = fv
    while isinstance(t, Ref): t = t.get()
    if t is None:
        # a capture-less closure kept in a local is zero-sized: MIR never assigns it, the callee type names it
        m = re.match(r'^<&?(?:mut )?\{closure@([^}]*)\} as Fn', c)
        if m: fv = Closure(m.group(1), [])
    return e.call_value(fv, list(args.f))

@model('RangeInclusive::new')
def _range_incl(e, c, a): return Struct([a[0], a[1], False])
@model('RangeInclusive::start')
def _ri_start(e, c, a): return Ref(deref(a[0]).f, 0)
@model('RangeInclusive::end')
def _ri_end(e, c, a): return Ref(deref(a[0]).f, 1)
@model('mem::drop')
def _mem_drop(e, c, a): e.drop_value(a[0]); return UNIT
@model('<Box as Drop>::drop', 'Box::drop')
def _box_drop(e, c, a):
    # <Box<T> as Drop>::drop after the content was moved out (box deref move): frees the allocation only
    return UNIT
@model('mem::swap')
def _mem_swap(e, c, a):
    x, y = a; t = x.get(); x.set(y.get()); y.set(t); return UNIT
@model('mem::replace')
def _mem_replace(e, c, a):
    x = a[0]; t = x.get(); x.set(a[1]); return t
@model('mem::take')
def _mem_take(e, c, a):
    x = a[0]; t = x.get()
    if isinstance(t, VecObj): x.set(VecObj())
    else: raise Unsupported('mem::take of %r' % (t,))
    return t

# ---- strings (concrete only) ----
@model('String::new')
def _string_new(e, c, a): return StrBuf('')
@model('ToString::to_string', 'ToOwned::to_owned', 'str::to_string', 'str::to_owned')
def _to_string(e, c, a):
    v = unguard(a[0])
    if is_sym(v): v = e.concretize(v)          # the decimal rendering depends on the value: fork over the feasible ones
    if isinstance(v, StrBuf): return StrBuf(v.s)
    if isinstance(v, str): return StrBuf(v)
    if isinstance(v, bool): return StrBuf('true' if v else 'false')
    if isinstance(v, int): return StrBuf(str(v))
    if type(v).__name__ == 'SymStr': return StrBuf(v)        # owned copy of a (possibly symbolic) piece of the input text
    raise Unsupported('to_string of %r' % (v,))
@model('String::as_str', 'String::as_ref', 'String::borrow', 'Borrow::borrow', 'AsRef::as_ref')
def _as_str(e, c, a):
    v = unguard(a[0])
    if isinstance(v, StrBuf): return v.s
    return a[0]
@model('str::parse')
def _str_parse(e, c, a):
    v = unguard(a[0]); t = v.s if isinstance(v, StrBuf) else v
    m = re.search(r'parse::<(\w+)>', c)
    ty = m.group(1) if m else 'usize'
    if ty in INT_TYPES:
        w, sg = INT_TYPES[ty]
        if re.fullmatch(r'\+?\d+', t) and int(t) < (1 << w): return Ok(int(t))
        return Err(UNIT)
    raise Unsupported('str::parse to ' + ty)
@model('str::len', 'String::len')
def _str_len(e, c, a):
    v = unguard(a[0]); return len((v.s if isinstance(v, StrBuf) else v).encode())

def install(engine):
    engine.models.update(M)
