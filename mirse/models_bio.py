"""Contract model of the external crate biodivine_lib_bdd (no MIR available for it): a `Bdd` is the Boolean function it denotes, kept as a
truth table over the variables of its `BddVariableSet`; every entry is a python bool or a z3 Bool, so a diagram may be a *symbolic*
function.  Each API call used by adf_bdd (lib/src/adfbiodivine.rs, parser.rs, adf.rs) is given its documented meaning on functions:

  BddVariableSetBuilder::{new, make_variables, build}, BddVariableSet::{variables, mk_false, mk_true, eval_expression},
  Bdd::{is_true, is_false, and, or, not, iff, imp, xor, var_select, var_exists, select, exists, restrict, sat_valuations, to_string, clone},
  BddValuation::value, BooleanExpression (Const, Variable, Not, And, Or, Xor, Imp, Iff)
and, so that a change which reaches for a neighbouring call does not simply end inconclusive, a wider set at the end of the file
(support_set, sat_clauses / BddPartialValuation, witnesses, cardinality, eval_in, quantifiers, mk_var / mk_literal / clauses, pointer-level access)

What this assumes (stated in the evidence): the biodivine library computes Boolean functions correctly and canonically (is_true / is_false
decide validity / unsatisfiability); `to_string` emits a reduced ordered node list `|var,lo,hi|...` with the two terminals first and
children before parents (post-order of the reduced diagram, high branch first - biodivine's own layout after eval_expression; after other
operations biodivine's layout differs, so code that depends on the physical node order is only approximated: a counterexample found
that way is reported only if it reproduces natively, otherwise the run is inconclusive); `sat_valuations` enumerates the satisfying valuations once each, in lexicographic order with variable 0 most
significant; variable names containing one of  ! & | ^ = < > ( ) ? :  are rejected with a panic (biodivine's documented restriction, known
finding D8).  adf_bdd's own code on top of these calls (grounded_internal, complete, stable, stable_bdd_representation, hybrid_step,
from_biodivine_vector, the Term conversions) is executed for real from its MIR."""
import z3
from .engine import *
from .models import deref, d1, unguard, it_list
from .engine import Some, NONE

BAD_NAME_CHARS = set('!&|^=<>()?:')      # biodivine-lib-bdd 0.5: NOT_IN_VAR_NAME


def _b(x): return x if isinstance(x, bool) or is_sym(x) else bool(x)
def _and(a, b):
    if a is False or b is False: return False
    if a is True: return b
    if b is True: return a
    return z3.And(a, b)
def _or(a, b):
    if a is True or b is True: return True
    if a is False: return b
    if b is False: return a
    return z3.Or(a, b)
def _not(a):
    if isinstance(a, bool): return not a
    return z3.Not(a)
def _iff(a, b):
    if isinstance(a, bool): return b if a else _not(b)
    if isinstance(b, bool): return a if b else _not(a)
    return a == b


class BioVarSet:
    def __init__(self, names): self.names = list(names)
    def clone(self, e): return self
    def __repr__(self): return 'BddVariableSet%r' % (self.names,)


class BioBuilder:
    def __init__(self): self.names = []
    def clone(self, e): b = BioBuilder(); b.names = list(self.names); return b


class BioBdd:
    """immutable: shared on clone"""
    __slots__ = ('n', 'tab')
    def __init__(self, n, tab): self.n = n; self.tab = tab
    def clone(self, e): return self
    def __repr__(self): return 'BioBdd(%d,%s)' % (self.n, ''.join('1' if x is True else '0' if x is False else '?' for x in self.tab))


class BioValuation:
    __slots__ = ('a',)
    def __init__(self, a): self.a = a
    def clone(self, e): return self


def const(n, v): return BioBdd(n, [v] * (1 << n))
def var_fn(n, i): return BioBdd(n, [bool((a >> i) & 1) for a in range(1 << n)])
def pointwise(f, x, y): return BioBdd(x.n, [f(p, q) for p, q in zip(x.tab, y.tab)])
def pystr(v):
    v = deref(v)
    if isinstance(v, StrBuf): v = v.s
    if isinstance(v, str): return v
    if type(v).__name__ == 'SymStr':
        bs = v.bytes()
        if all(isinstance(b, int) for b in bs): return bytes(bs).decode()
    raise Unsupported('symbolic variable name for biodivine')

def varidx(v):
    v = deref(v)
    if isinstance(v, Struct): v = v.f[0]
    return v

LOCAL = {}
def bmodel(*names):
    def deco(f):
        f.model_name = 'biodivine:' + names[0]
        for n in names: LOCAL[n] = f
        return f
    return deco


def truth(e, x):
    """decide a (possibly symbolic) Boolean on this path"""
    return x if isinstance(x, bool) else e.branch(x)


@bmodel('impl BddVariableSetBuilder::new')
def _builder_new(e, c, a): return BioBuilder()
@bmodel('impl BddVariableSetBuilder::make_variables')
def _make_variables(e, c, a):
    b = unguard(a[0]); sl = deref(a[1])
    items = sl.aslist() if isinstance(sl, SliceRef) else sl.items
    out = []
    for x in items:
        s = pystr(x)
        if s in b.names: raise RustPanic('biodivine: BDD variable %s already exists' % s)
        if any(ch in BAD_NAME_CHARS for ch in s): raise RustPanic('biodivine: name %s is invalid, cannot use a name with special characters' % s)
        out.append(Struct([len(b.names)])); b.names.append(s)
    return VecObj(out)
@bmodel('impl BddVariableSetBuilder::build')
def _build(e, c, a): return BioVarSet(unguard(a[0]).names)
@bmodel('impl BddVariableSet::variables')
def _variables(e, c, a): return VecObj([Struct([i]) for i in range(len(unguard(a[0]).names))])
@bmodel('impl BddVariableSet::mk_false')
def _mk_false(e, c, a): return const(len(unguard(a[0]).names), False)
@bmodel('impl BddVariableSet::mk_true')
def _mk_true(e, c, a): return const(len(unguard(a[0]).names), True)


def eval_expr(e, vs, x):
    x = deref(x)
    while isinstance(x, CellObj): x = x.c[0]
    n = len(vs.names)
    k = x.v
    if k == 'Const': return const(n, bool(truth(e, x.f[0])))
    if k == 'Variable':
        s = pystr(x.f[0])
        if s not in vs.names: raise RustPanic('biodivine: unknown variable %s in expression' % s)
        return var_fn(n, vs.names.index(s))
    if k == 'Not': return BioBdd(n, [_not(p) for p in eval_expr(e, vs, x.f[0]).tab])
    l = eval_expr(e, vs, x.f[0]); r = eval_expr(e, vs, x.f[1])
    if k == 'And': return pointwise(_and, l, r)
    if k == 'Or': return pointwise(_or, l, r)
    if k == 'Xor': return pointwise(lambda p, q: _not(_iff(p, q)), l, r)
    if k == 'Imp': return pointwise(lambda p, q: _or(_not(p), q), l, r)
    if k == 'Iff': return pointwise(_iff, l, r)
    if k == 'Cond':
        t = eval_expr(e, vs, x.f[2])
        return BioBdd(n, [_or(_and(c_, p), _and(_not(c_), q)) for c_, p, q in zip(l.tab, r.tab, t.tab)])
    raise Unsupported('BooleanExpression::%s' % k)

@bmodel('impl BddVariableSet::eval_expression')
def _eval_expression(e, c, a): return eval_expr(e, unguard(a[0]), a[1])


@bmodel('impl Bdd::is_true')
def _is_true(e, c, a):
    b = deref(a[0])
    if any(x is False for x in b.tab): return False
    sym = [x for x in b.tab if x is not True]
    return True if not sym else e.branch(z3.And(*sym))
@bmodel('impl Bdd::is_false')
def _is_false(e, c, a):
    b = deref(a[0])
    if any(x is True for x in b.tab): return False
    sym = [x for x in b.tab if x is not False]
    return True if not sym else e.branch(z3.Not(z3.Or(*sym)))
@bmodel('impl Bdd::and')
def _band(e, c, a): return pointwise(_and, deref(a[0]), deref(a[1]))
@bmodel('impl Bdd::or')
def _bor(e, c, a): return pointwise(_or, deref(a[0]), deref(a[1]))
@bmodel('impl Bdd::iff')
def _biff(e, c, a): return pointwise(_iff, deref(a[0]), deref(a[1]))
@bmodel('impl Bdd::xor')
def _bxor(e, c, a): return pointwise(lambda p, q: _not(_iff(p, q)), deref(a[0]), deref(a[1]))
@bmodel('impl Bdd::imp')
def _bimp(e, c, a): return pointwise(lambda p, q: _or(_not(p), q), deref(a[0]), deref(a[1]))
@bmodel('impl Bdd::not')
def _bnot(e, c, a):
    b = deref(a[0]); return BioBdd(b.n, [_not(p) for p in b.tab])


def pairs_of(e, v):
    v = deref(v)
    items = v.aslist() if isinstance(v, SliceRef) else v.items
    out = []
    for p in items:
        p = deref(p)
        out.append((varidx(p.f[0]), bool(truth(e, p.f[1]))))
    return out
def vars_of(v):
    v = deref(v)
    items = v.aslist() if isinstance(v, SliceRef) else v.items
    return [varidx(x) for x in items]

def select(b, pairs):
    return BioBdd(b.n, [x if all(((a >> i) & 1) == int(val) for i, val in pairs) else False for a, x in enumerate(b.tab)])
def exists(b, vs):
    tab = list(b.tab)
    for i in vs:
        tab = [_or(tab[a & ~(1 << i)], tab[a | (1 << i)]) for a in range(1 << b.n)]
    return BioBdd(b.n, tab)

@bmodel('impl Bdd::var_select')
def _var_select(e, c, a): return select(deref(a[0]), [(varidx(a[1]), bool(truth(e, a[2])))])
@bmodel('impl Bdd::var_exists')
def _var_exists(e, c, a): return exists(deref(a[0]), [varidx(a[1])])
@bmodel('impl Bdd::select')
def _select(e, c, a): return select(deref(a[0]), pairs_of(e, a[1]))
@bmodel('impl Bdd::exists')
def _exists(e, c, a): return exists(deref(a[0]), vars_of(a[1]))
@bmodel('impl Bdd::restrict')
def _restrict(e, c, a):
    b = deref(a[0]); pairs = pairs_of(e, a[1])
    def forced(asg):
        for i, val in pairs: asg = (asg | (1 << i)) if val else (asg & ~(1 << i))
        return asg
    return BioBdd(b.n, [b.tab[forced(asg)] for asg in range(1 << b.n)])
@bmodel('impl Bdd::var_restrict')
def _var_restrict(e, c, a):
    b = deref(a[0]); i = varidx(a[1]); val = bool(truth(e, a[2]))
    return BioBdd(b.n, [b.tab[(asg | (1 << i)) if val else (asg & ~(1 << i))] for asg in range(1 << b.n)])

@bmodel('impl Bdd::sat_valuations')
def _sat_valuations(e, c, a):
    b = deref(a[0]); n = b.n
    # lexicographic, variable 0 most significant
    order = sorted(range(1 << n), key=lambda asg: [((asg >> i) & 1) for i in range(n)])
    return it_list([BioValuation(asg) for asg in order if truth(e, b.tab[asg])])
@bmodel('impl BddValuation::value')
def _value(e, c, a): return bool((deref(a[0]).a >> varidx(a[1])) & 1)


def node_list(e, b):
    """reduced ordered node list of the function (entries decided on this path): [(var, lo, hi)], terminals at 0 and 1"""
    n = b.n
    tab = [bool(truth(e, x)) for x in b.tab]
    nodes = [(n, 0, 0), (n, 1, 1)]; memo = {}
    def rec(var, fixed):
        # cofactor with variables < var fixed as in `fixed`
        sub = tuple(tab[asg] for asg in range(1 << n) if all(((asg >> i) & 1) == ((fixed >> i) & 1) for i in range(var)))
        if all(sub): return 1
        if not any(sub): return 0
        key = (var, sub)
        if key in memo: return memo[key]
        hi = rec(var + 1, fixed | (1 << var)); lo = rec(var + 1, fixed)          # biodivine lays the high branch out first (checked natively)
        if lo == hi: r = lo
        else:
            r = memo.get(('n', var, lo, hi))
            if r is None:
                nodes.append((var, lo, hi)); r = len(nodes) - 1; memo[('n', var, lo, hi)] = r
        memo[key] = r
        return r
    root = rec(0, 0)
    if root == 0: return nodes[:1]
    if root == 1: return nodes[:2]
    return nodes

# ---- structural API: pointers into the node list (layout: post-order, high branch first; see the module comment)
def _nodes(e, b): return node_list(e, deref(b))
def _ptr(v):
    v = deref(v)
    return v.f[0] if isinstance(v, Struct) else v
@bmodel('impl Bdd::root_pointer')
def _root_pointer(e, c, a): return Struct([len(_nodes(e, a[0])) - 1])
@bmodel('impl Bdd::var_of')
def _var_of(e, c, a): return Struct([_nodes(e, a[0])[_ptr(a[1])][0]])
@bmodel('impl Bdd::low_link_of')
def _low_link_of(e, c, a): return Struct([_nodes(e, a[0])[_ptr(a[1])][1]])
@bmodel('impl Bdd::high_link_of')
def _high_link_of(e, c, a): return Struct([_nodes(e, a[0])[_ptr(a[1])][2]])
@bmodel('impl Bdd::size')
def _size(e, c, a): return len(_nodes(e, a[0]))
@bmodel('impl Bdd::num_vars')
def _num_vars(e, c, a): return deref(a[0]).n
@bmodel('impl BddPointer::from_index')
def _from_index(e, c, a): return Struct([a[0]])
@bmodel('impl BddPointer::to_index')
def _to_index(e, c, a): return _ptr(a[0])
@bmodel('impl BddPointer::zero')
def _pzero(e, c, a): return Struct([0])
@bmodel('impl BddPointer::one')
def _pone(e, c, a): return Struct([1])
@bmodel('impl BddPointer::is_zero')
def _is_zero(e, c, a): return _ptr(a[0]) == 0
@bmodel('impl BddPointer::is_one')
def _is_one(e, c, a): return _ptr(a[0]) == 1
@bmodel('impl BddPointer::is_terminal')
def _is_terminal(e, c, a): return _ptr(a[0]) <= 1

@bmodel('<Bdd as ToString>::to_string', '<biodivine_lib_bdd::Bdd as ToString>::to_string')
def _to_string(e, c, a):
    b = deref(a[0])
    return StrBuf('|' + '|'.join('%d,%d,%d' % nd for nd in node_list(e, b)) + '|')


def install(e):
    for k, f in LOCAL.items(): e.models[k] = f
    e.enums['BooleanExpression'] = ['Const', 'Variable', 'Not', 'And', 'Or', 'Xor', 'Imp', 'Iff', 'Cond']


# ---------------------------------------------------------------- further API a maintainer may reach for (same contract: a Bdd is its function)
class BioPartial:
    """BddPartialValuation: variable index -> bool for some variables"""
    def __init__(self, vals=None): self.vals = dict(vals or {})
    def clone(self, e): return BioPartial(self.vals)
    def __repr__(self): return 'BddPartialValuation%r' % (self.vals,)


def depends_on(e, b, i):
    conds = []
    for a in range(1 << b.n):
        if (a >> i) & 1: continue
        x, y = b.tab[a], b.tab[a | (1 << i)]
        if isinstance(x, bool) and isinstance(y, bool):
            if x != y: return True
        else: conds.append(_not(_iff(x, y)))
    if not conds: return False
    return e.branch(z3.Or(*conds)) if len(conds) > 1 else truth(e, conds[0])

@bmodel('impl Bdd::support_set')
def _support_set(e, c, a):
    b = deref(a[0])
    return SetObj([Struct([i]) for i in range(b.n) if depends_on(e, b, i)])

def paths_to_one(e, b):
    nodes = node_list(e, b); out = []
    if len(nodes) == 1: return out
    if len(nodes) == 2: return [BioPartial()]
    def rec(p, vals):
        if p == 0: return
        if p == 1: out.append(BioPartial(vals)); return
        v, lo, hi = nodes[p]
        rec(lo, dict(vals, **{v: False})); rec(hi, dict(vals, **{v: True}))
    rec(len(nodes) - 1, {})
    return out
@bmodel('impl Bdd::sat_clauses')
def _sat_clauses(e, c, a): return it_list(paths_to_one(e, deref(a[0])))
@bmodel('impl Bdd::first_clause', 'impl Bdd::most_positive_clause', 'impl Bdd::most_negative_clause', 'impl Bdd::most_fixed_clause', 'impl Bdd::most_free_clause')
def _first_clause(e, c, a):
    ps = paths_to_one(e, deref(a[0]))
    if not ps: return NONE()
    if 'first' in c: return Some(ps[0])
    raise Unsupported('biodivine clause selection ' + c)
@bmodel('impl BddPartialValuation::get_value')
def _pv_get(e, c, a):
    v = deref(a[0]).vals.get(varidx(a[1]))
    return NONE() if v is None else Some(v)
@bmodel('impl BddPartialValuation::has_value')
def _pv_has(e, c, a): return varidx(a[1]) in deref(a[0]).vals
@bmodel('impl BddPartialValuation::set_value')
def _pv_set(e, c, a):
    unguard(a[0]).vals[varidx(a[1])] = bool(truth(e, a[2])); return UNIT
@bmodel('impl BddPartialValuation::unset_value')
def _pv_unset(e, c, a):
    unguard(a[0]).vals.pop(varidx(a[1]), None); return UNIT
@bmodel('impl BddPartialValuation::empty')
def _pv_empty(e, c, a): return BioPartial()
@bmodel('impl BddPartialValuation::from_values')
def _pv_from_values(e, c, a): return BioPartial(dict(pairs_of(e, a[0])))
@bmodel('impl BddPartialValuation::to_values')
def _pv_to_values(e, c, a): return VecObj([Struct([Struct([i]), v]) for i, v in sorted(deref(a[0]).vals.items())])
@bmodel('impl BddPartialValuation::cardinality')
def _pv_card(e, c, a): return len(deref(a[0]).vals)

def sat_list(e, b):
    n = b.n
    order = sorted(range(1 << n), key=lambda asg: [((asg >> i) & 1) for i in range(n)])
    return [asg for asg in order if truth(e, b.tab[asg])]
@bmodel('impl Bdd::sat_witness', 'impl Bdd::first_valuation')
def _sat_witness(e, c, a):
    xs = sat_list(e, deref(a[0]))
    return Some(BioValuation(xs[0])) if xs else NONE()
@bmodel('impl Bdd::last_valuation')
def _last_valuation(e, c, a):
    xs = sat_list(e, deref(a[0]))
    return Some(BioValuation(xs[-1])) if xs else NONE()
@bmodel('impl Bdd::cardinality')
def _cardinality(e, c, a): return float(len(sat_list(e, deref(a[0]))))
@bmodel('impl Bdd::eval_in')
def _eval_in(e, c, a): return truth(e, deref(a[0]).tab[deref(a[1]).a])
@bmodel('impl BddValuation::new')
def _val_new(e, c, a):
    v = deref(a[0]); items = v.items if isinstance(v, VecObj) else v.aslist()
    return BioValuation(sum((1 << i) for i, x in enumerate(items) if truth(e, x)))
@bmodel('impl BddValuation::all_false')
def _val_all_false(e, c, a): return BioValuation(0)
@bmodel('impl BddValuation::vector', 'impl BddValuation::to_values')
def _val_vector(e, c, a): raise Unsupported('BddValuation::vector needs the number of variables (not kept by the model)')
@bmodel('impl Bdd::is_valuation')
def _is_valuation(e, c, a): return len(sat_list(e, deref(a[0]))) == 1
@bmodel('impl Bdd::and_not')
def _and_not(e, c, a): return pointwise(lambda p, q: _and(p, _not(q)), deref(a[0]), deref(a[1]))
@bmodel('impl Bdd::if_then_else')
def _bite(e, c, a):
    i, t, el = deref(a[0]), deref(a[1]), deref(a[2])
    return BioBdd(i.n, [_or(_and(x, y), _and(_not(x), z)) for x, y, z in zip(i.tab, t.tab, el.tab)])
def forall(b, vs):
    tab = list(b.tab)
    for i in vs: tab = [_and(tab[a & ~(1 << i)], tab[a | (1 << i)]) for a in range(1 << b.n)]
    return BioBdd(b.n, tab)
@bmodel('impl Bdd::var_for_all')
def _var_for_all(e, c, a): return forall(deref(a[0]), [varidx(a[1])])
@bmodel('impl Bdd::for_all')
def _for_all(e, c, a): return forall(deref(a[0]), vars_of(a[1]))
@bmodel('impl Bdd::var_project', 'impl Bdd::var_exists')
def _var_project(e, c, a): return exists(deref(a[0]), [varidx(a[1])])
@bmodel('impl Bdd::project')
def _project(e, c, a): return exists(deref(a[0]), vars_of(a[1]))
@bmodel('impl Bdd::is_clause')
def _is_clause(e, c, a): return len(paths_to_one(e, deref(a[0]))) == 1

@bmodel('impl BddVariableSet::mk_var')
def _mk_var(e, c, a): return var_fn(len(unguard(a[0]).names), varidx(a[1]))
@bmodel('impl BddVariableSet::mk_not_var')
def _mk_not_var(e, c, a):
    n = len(unguard(a[0]).names); i = varidx(a[1]); return BioBdd(n, [not bool((x >> i) & 1) for x in range(1 << n)])
@bmodel('impl BddVariableSet::mk_literal')
def _mk_literal(e, c, a):
    n = len(unguard(a[0]).names); i = varidx(a[1]); val = bool(truth(e, a[2]))
    return BioBdd(n, [bool((x >> i) & 1) == val for x in range(1 << n)])
@bmodel('impl BddVariableSet::mk_var_by_name')
def _mk_var_by_name(e, c, a):
    vs = unguard(a[0]); s = pystr(a[1])
    if s not in vs.names: raise RustPanic('biodivine: variable %s is not known in this set' % s)
    return var_fn(len(vs.names), vs.names.index(s))
@bmodel('impl BddVariableSet::var_by_name')
def _var_by_name(e, c, a):
    vs = unguard(a[0]); s = pystr(a[1])
    return Some(Struct([vs.names.index(s)])) if s in vs.names else NONE()
@bmodel('impl BddVariableSet::name_of')
def _name_of(e, c, a): return StrBuf(unguard(a[0]).names[varidx(a[1])])
@bmodel('impl BddVariableSet::num_vars')
def _vs_num_vars(e, c, a): return len(unguard(a[0]).names)
@bmodel('impl BddVariableSet::mk_const')
def _mk_const(e, c, a): return const(len(unguard(a[0]).names), bool(truth(e, a[1])))
def clause(e, vs, pv, conj):
    n = len(vs.names); vals = deref(pv).vals
    if conj: return BioBdd(n, [all(bool((x >> i) & 1) == v for i, v in vals.items()) for x in range(1 << n)])
    return BioBdd(n, [any(bool((x >> i) & 1) == v for i, v in vals.items()) for x in range(1 << n)])
@bmodel('impl BddVariableSet::mk_conjunctive_clause')
def _mk_conj(e, c, a): return clause(e, unguard(a[0]), a[1], True)
@bmodel('impl BddVariableSet::mk_disjunctive_clause')
def _mk_disj(e, c, a): return clause(e, unguard(a[0]), a[1], False)
@bmodel('impl BddVariableSet::eval_expression_string')
def _eval_expression_string(e, c, a): raise Unsupported('biodivine expression parser (eval_expression_string) is not modelled')
@bmodel('impl BddVariable::to_index')
def _var_to_index(e, c, a): return varidx(a[0])
@bmodel('impl BddVariable::from_index')
def _var_from_index(e, c, a): return Struct([a[0]])
@bmodel('impl BddPointer::from_bool')
def _ptr_from_bool(e, c, a): return Struct([1 if truth(e, a[0]) else 0])
@bmodel('impl BddPointer::as_bool')
def _ptr_as_bool(e, c, a):
    p = _ptr(a[0]); return Some(bool(p)) if p <= 1 else NONE()
