"""Harness helpers: symbolic inputs built through the real code, table extraction, violation records."""
import z3
from .engine import *
from .models import deref, unguard

BV64 = lambda x: z3.BitVecVal(x, 64)

def T(x): return Struct([x])          # bdd::Term / bdd::Var are one-field tuple structs
def tv(t):                            # numeric value of a Term/Var struct
    while isinstance(t, Ref): t = t.get()
    return t.f[0]

def tt_bits(name, n): return [z3.Bool('%s_%d' % (name, i)) for i in range(1 << n)]
def bterm(b):
    if isinstance(b, int) and not isinstance(b, bool): return T(1 if b else 0)
    if b is True: return T(1)
    if b is False: return T(0)
    return T(z3.If(b, BV64(1), BV64(0)))

def new_bdd(e):
    bdd = e.call('obdd::Bdd::new', [])
    return bdd, Ref([bdd], 0)

def bdd_nodes(e, bdd): return bdd.f[e.field('Bdd', 'nodes')].items

def build_shannon(e, r, bits, n, var=0, idx=0, order=None):
    """Shannon expansion through the real Bdd::node.  Assignment index: bit v = value of variable v.
    order = list of variables from root to leaves (must be increasing for an ordered diagram)."""
    if var == n: return bterm(bits[idx])
    lo = build_shannon(e, r, bits, n, var + 1, idx)
    hi = build_shannon(e, r, bits, n, var + 1, idx | (1 << var))
    return e.call('obdd::Bdd::node', [r, T(var), lo, hi])

def leaf_bool(e, h):
    """a handle value that is symbolic is one of the harness' leaf terms If(b,1,0): its truth value"""
    if not is_sym(h): return None
    return h == BV64(1)

def eval_handle(e, nodes, h, asg, nvars=None):
    """walk the node table from handle h under assignment asg (int bitmask).  Returns python bool or z3 Bool.
    Node table shape is concrete on a path; only leaf-level handles may still be symbolic (0/1 valued)."""
    cur = h
    fuel = len(nodes) + 2
    while True:
        if is_sym(cur):
            cur = z3.simplify(cur)
            if z3.is_bv_value(cur): cur = cur.as_long()
            else: return cur == BV64(1)
        if cur <= 1: return cur == 1
        fuel -= 1
        if fuel < 0: raise RustPanic('cyclic node table')
        if cur >= len(nodes): raise RustPanic('dangling handle %d' % cur)
        nd = nodes[cur]
        v = nd.f[0].f[0]
        if is_sym(v): v = e.concretize(v)
        cur = (nd.f[2] if (asg >> v) & 1 else nd.f[1]).f[0]

def table(e, nodes, h, n):
    return [eval_handle(e, nodes, h, asg) for asg in range(1 << n)]

def zb(x):
    if x is True: return z3.BoolVal(True)
    if x is False: return z3.BoolVal(False)
    return x

def differs(got, want):
    """z3 formula 'got != want' for bool-ish values (python bool or z3 Bool)"""
    if isinstance(got, bool) and isinstance(want, bool): return got != want
    if isinstance(got, bool): return z3.Not(want) if got else want
    if isinstance(want, bool): return z3.Not(got) if want else got
    return got != want

def sat_model(e, cond):
    """is pc /\\ cond satisfiable?  returns a model or None"""
    if cond is False: return None
    if cond is True:
        return e.solver.model() if e.check() == z3.sat else None
    if e.check(cond) == z3.sat: return e.solver.model()
    return None

def mbool(m, b):
    if isinstance(b, (bool, int)): return bool(b)
    return z3.is_true(m.eval(b, model_completion=True))
def mint(m, x):
    if isinstance(x, int): return x
    return m.eval(x, model_completion=True).as_long()

def tables_from_model(m, tabs):
    return [[1 if mbool(m, b) else 0 for b in t] for t in tabs]

def report(e, kind, **kw):
    d = {'kind': kind}; d.update(kw)
    e.path_violations.append(d)

def ivec(e, vec):
    """concrete list of handle values of a Vec<Term> (forks if symbolic)"""
    out = []
    for x in (vec.items if isinstance(vec, VecObj) else vec):
        h = tv(x)
        out.append(e.concretize(h) if is_sym(h) else h)
    return out

def info_class(h):
    return 'T' if h == 1 else 'F' if h == 0 else 'u'
