"""mirse - bounded symbolic executor for rustc's textual MIR (-Zunpretty=mir), deciding with z3.

Values
  ints / bools   python int/bool while concrete, z3 BitVecRef / BoolRef once they depend on an input
  Struct(f)      tuples, structs, arrays (f = list of fields)
  Enum(v,f,ty)   v = variant name, f = fields, ty = enum name (None = look it up)
  Ref(lst,i)     pointer to storage slot lst[i]     SliceRef(items,start,n)
  Closure(span,f), FnRef(name)
  model objects for library containers (VecObj, MapObj, SetObj, CellObj, ...), see models*.py

Paths: forking by re-execution under a decision prefix.  Every branch whose condition depends on symbolic
data is decided by the solver under the current path condition; when both outcomes are feasible the
untaken one is pushed on the work list as a prefix.  Dropped outcomes were proved infeasible (unsat).
"""
import re, time, glob, os
import z3
from .mirparse import parse_mir, split_top, find_matching


class Struct:
    __slots__ = ('f',)
    def __init__(self, f): self.f = f
    def __repr__(self): return 'S' + repr(self.f)

class Enum:
    __slots__ = ('v', 'f', 'ty')
    def __init__(self, v, f=None, ty=None): self.v = v; self.f = f if f is not None else []; self.ty = ty
    def __repr__(self): return 'E:%s%r' % (self.v, self.f)

class Ref:
    __slots__ = ('lst', 'i')
    def __init__(self, lst, i): self.lst = lst; self.i = i
    def get(self): return self.lst[self.i]
    def set(self, v): self.lst[self.i] = v
    def __repr__(self): return '&%r' % (self.get(),)

class SliceRef:
    __slots__ = ('items', 'start', 'n')
    def __init__(self, items, start, n): self.items = items; self.start = start; self.n = n
    def aslist(self): return self.items[self.start:self.start + self.n]
    def __repr__(self): return '&[%r]' % (self.aslist(),)

class SliceVal:   # result of dereferencing a SliceRef (an unsized place)
    __slots__ = ('r',)
    def __init__(self, r): self.r = r

class VecObj:
    __slots__ = ('items',)
    def __init__(self, items=None): self.items = items if items is not None else []
    def __repr__(self): return 'Vec%r' % (self.items,)

class MapObj:
    __slots__ = ('e', 'ck')
    def __init__(self): self.e = []      # list of [key, [value]]
    def __repr__(self): return 'Map%r' % (self.e,)

class SetObj:
    __slots__ = ('e',)
    def __init__(self, e=None): self.e = e if e is not None else []
    def __repr__(self): return 'Set%r' % (self.e,)

class CellObj:    # Box / RefCell / guards / Arc / RwLock ... : one slot
    __slots__ = ('c', 'kind')
    def __init__(self, v, kind='box'): self.c = [v]; self.kind = kind
    def __repr__(self): return '%s(%r)' % (self.kind, self.c[0])

class Closure:
    __slots__ = ('span', 'f')
    def __init__(self, span, f): self.span = span; self.f = f
    def __repr__(self): return 'closure@%s' % self.span

class FnRef:
    __slots__ = ('name',)
    def __init__(self, name): self.name = name
    def __repr__(self): return 'fn:%s' % self.name

class StrBuf:     # owned String (mutable)
    __slots__ = ('s',)
    def __init__(self, s=''): self.s = s
    def __repr__(self): return 'String(%r)' % self.s

UNIT = Struct([])

class RustPanic(Exception): pass
class BoundExceeded(Exception): pass
class Infeasible(Exception): pass
class Unsupported(Exception): pass

STD_ENUMS = {
    'Option': ['None', 'Some'], 'Result': ['Ok', 'Err'], 'Ordering': ['Less', 'Equal', 'Greater'],
    'ControlFlow': ['Continue', 'Break'], 'Level': ['_', 'Error', 'Warn', 'Info', 'Debug', 'Trace'],
    'LevelFilter': ['Off', 'Error', 'Warn', 'Info', 'Debug', 'Trace'],
    'TryRecvError': ['Empty', 'Disconnected'], 'TrySendError': ['Full', 'Disconnected'],
}
STD_DISCR = {('Ordering', 'Less'): -1, ('Ordering', 'Equal'): 0, ('Ordering', 'Greater'): 1}

INT_TYPES = {'usize': (64, False), 'u64': (64, False), 'u32': (32, False), 'u16': (16, False), 'u8': (8, False),
             'isize': (64, True), 'i64': (64, True), 'i32': (32, True), 'i16': (16, True), 'i8': (8, True),
             'u128': (128, False), 'i128': (128, True), 'char': (32, False)}

def Some(x): return Enum('Some', [x], 'Option')
def NONE(): return Enum('None', [], 'Option')
def Ok(x): return Enum('Ok', [x], 'Result')
def Err(x): return Enum('Err', [x], 'Result')
def some(v): return Some(v) if v is not None else NONE()

def is_sym(v): return isinstance(v, z3.ExprRef)

def strip_generics(s):
    out = []; depth = 0; i = 0
    while i < len(s):
        c = s[i]
        if c == '<': depth += 1
        elif c == '>' and s[i-1] not in '-=': depth -= 1
        elif depth == 0: out.append(c)
        i += 1
    r = ''.join(out).replace('::::', '::')
    while r.endswith('::'): r = r[:-2]
    return r

BINOPS = ('Eq', 'Ne', 'Lt', 'Le', 'Gt', 'Ge', 'Add', 'Sub', 'Mul', 'Div', 'Rem', 'BitAnd', 'BitOr', 'BitXor', 'Shl', 'Shr',
          'AddWithOverflow', 'SubWithOverflow', 'MulWithOverflow', 'Cmp', 'AddUnchecked', 'SubUnchecked', 'MulUnchecked',
          'ShlUnchecked', 'ShrUnchecked', 'Offset')
CAST_RE = re.compile(r'^(.*) as (.*?) \((IntToInt|PointerCoercion|Transmute|PtrToPtr|Subtype|IntToFloat|FloatToInt|FloatToFloat|FnPtrToPtr|PointerExposeProvenance|PointerWithExposedProvenance)(?:\(.*\))?\)$')
NOP_PREFIXES = ('StorageLive', 'StorageDead', 'nop', 'FakeRead', 'AscribeUserType', 'PlaceMention', 'Retag', 'Coverage',
                'ConstEvalCounter', 'debug ', 'scope ', 'let ', 'BackwardIncompatibleDropHint')


class Engine:
    def __init__(self, mir_text, src_root, src_globs=('lib/src/**/*.rs',), features=()):
        self.closure_ops = {}
        if isinstance(mir_text, tuple):
            mir_text, cl = mir_text
            for span, ops in cl.items():
                self.closure_ops[span] = [o if o.startswith(('copy ', 'move ', 'const ')) else 'copy ' + o for o in split_top(ops)]
        self.fns = parse_mir(mir_text)
        self.src_root = src_root
        self.features = set(features)
        self.srccache = {}
        self.enums = dict((k, list(v)) for k, v in STD_ENUMS.items())
        self.enum_discr = dict(STD_DISCR)
        self.structs = {}
        self.structs_q = {}
        self.field_types = {}        # (file, struct, field) -> type text
        self.impl_info = {}
        self.by_method = {}
        self.closure_by_span = {}
        self.place_cache = {}
        self.call_cache = {}
        self.const_cache = {}
        for name, f in self.fns.items():
            base = name.split('::')[-1]
            self.by_method.setdefault(base, []).append(f)
            if f.params:
                t = f.params[0][1]
                mm = re.search(r'\{closure@([^}]*)\}', t)
                if mm and '{closure#' in base:
                    self.closure_by_span[mm.group(1)] = f
        self.models = {}
        self.max_steps = 3_000_000
        self.max_depth = 400
        # per path
        self.solver = None
        self.steps = 0; self.depth = 0
        self.prefix = []; self.decisions = []; self.pending = []
        self.stats = {'solver_calls': 0, 'solver_time': 0.0, 'forks': 0, 'steps': 0}
        self.fn_hits = {}
        self.model_hits = {}
        self.hooks = {}        # harness-provided state for models (rand draws, channel cuts, ...)
        files = []
        for g in src_globs:
            files += sorted(glob.glob(os.path.join(src_root, g), recursive=True))
        self.src_files = [os.path.relpath(p, src_root) for p in files]
        self.load_types(self.src_files)

    # ---------- source helpers ----------
    def src(self, path):
        if path not in self.srccache:
            self.srccache[path] = open(os.path.join(self.src_root, path)).read().split('\n')
        return self.srccache[path]

    def impl_header(self, span):
        """span 'lib/src/obdd.rs:65:1: 65:9' -> (trait or None, selftype last segment)"""
        if span in self.impl_info: return self.impl_info[span]
        m = re.match(r'(.*?):(\d+):(\d+): (\d+):(\d+)', span)
        path, l1, c1, l2, c2 = m.group(1), int(m.group(2)), int(m.group(3)), int(m.group(4)), int(m.group(5))
        lines = self.src(path)
        if l1 == l2: text = lines[l1-1][c1-1:c2-1]
        else: text = ' '.join([lines[l1-1][c1-1:]] + lines[l1:l2-1] + [lines[l2-1][:c2-1]])
        res = None
        if text.startswith('impl'):
            t = strip_generics(text[4:]).strip()
            t = re.split(r'\s+where\b', t)[0].strip()
            if ' for ' in t:
                tr, ty = t.split(' for ', 1)
                res = (tr.strip().split('::')[-1], ty.strip().split('::')[-1].lstrip('&').strip())
            else:
                res = (None, t.split('::')[-1].strip())
        else:
            tr = text.strip()          # derive: the trait name; the type is the next struct/enum
            j = l1 - 1
            while j < len(lines):
                mm = re.match(r'\s*(?:pub(?:\([a-z]+\))? )?(?:struct|enum) (\w+)', lines[j])
                if mm: res = (tr, mm.group(1)); break
                j += 1
        self.impl_info[span] = res
        return res

    def cfg_on(self, attr):
        """evaluate a #[cfg(...)] attribute text against the feature set (feature = "x", not(...), all/any)"""
        a = attr.strip()
        m = re.match(r'^feature\s*=\s*"([^"]+)"$', a)
        if m: return m.group(1) in self.features
        m = re.match(r'^not\((.*)\)$', a, re.S)
        if m: return not self.cfg_on(m.group(1))
        m = re.match(r'^(all|any)\((.*)\)$', a, re.S)
        if m:
            parts = [self.cfg_on(x) for x in split_top(m.group(2))]
            return all(parts) if m.group(1) == 'all' else any(parts)
        if a == 'test': return False
        raise Unsupported('cfg ' + attr)

    def load_types(self, files):
        for p in files:
            txt = '\n'.join(self.src(p))
            txt = re.sub(r'//[^\n]*', '', txt)
            for m in re.finditer(r'\benum (\w+)(?:<[^>{]*>)?\s*\{', txt):
                j = find_matching(txt, m.end() - 1)
                body = txt[m.end():j]
                vs = []; k = 0
                for part in split_top(body):
                    part = re.sub(r'#\[[^\]]*\]', '', part).strip()
                    mm = re.match(r'(\w+)', part)
                    if not mm: continue
                    vs.append(mm.group(1))
                    md = re.search(r'=\s*(-?\d+)\s*$', part)
                    if md: k = int(md.group(1))
                    if k != len(vs) - 1: self.enum_discr[(m.group(1), mm.group(1))] = k
                    k += 1
                if m.group(1) not in STD_ENUMS: self.enums[m.group(1)] = vs
            for m in re.finditer(r'\bstruct (\w+)(?:<[^>{(]*>)?\s*\{', txt):
                j = find_matching(txt, m.end() - 1)
                body = txt[m.end():j]
                names = []
                for part in split_top(body):
                    on = True
                    for am in re.finditer(r'#\[cfg\((.*?)\)\]\s', part + ' ', re.S):
                        on = on and self.cfg_on(am.group(1))
                    part2 = re.sub(r'#\[(?:[^\[\]]|\[[^\]]*\])*\]', '', part).strip()
                    mm = re.match(r'(?:pub(?:\([a-z]+\))?\s+)?(\w+)\s*:\s*(.*)$', part2, re.S)
                    if mm and on:
                        names.append(mm.group(1)); self.field_types[(p, m.group(1), mm.group(1))] = ' '.join(mm.group(2).split())
                self.structs_q[(p, m.group(1))] = names
                if m.group(1) not in self.structs: self.structs[m.group(1)] = names

    def default_field(self, path, struct_name, field_name):
        """value of a struct field the harness does not know (a maintainer added it): the Default of container-like types, as the crate's constructors would
        initialise a cache / counter; anything else is unsupported (exit 2), never guessed"""
        ty = self.field_types.get((path, struct_name, field_name), '?')
        t = re.sub(r'\b(std|core|alloc)::(\w+::)*', '', ty)
        def dv(t):
            t = t.strip()
            m = re.match(r'(RefCell|Cell|Mutex|RwLock|Arc|Rc|Box)<(.*)>$', t)
            if m:
                kind = {'RefCell': 'refcell', 'Cell': 'refcell', 'Mutex': 'mutex', 'RwLock': 'rwlock', 'Arc': 'arc', 'Rc': 'arc', 'Box': 'box'}[m.group(1)]
                return CellObj(dv(m.group(2)), kind)
            if re.match(r'(HashMap|BTreeMap)<', t): return MapObj()
            if re.match(r'(HashSet|BTreeSet)<', t): return SetObj()
            if re.match(r'(Vec|VecDeque)<', t): return VecObj()
            if re.match(r'Option<', t): return NONE()
            if t == 'bool': return False
            if t in INT_TYPES: return 0
            if t == 'String': return StrBuf('')
            raise Unsupported('struct %s has a field %s of type %s that the harness cannot initialise' % (struct_name, field_name, ty))
        return dv(t)

    def field(self, struct_name, field_name):
        return self.structs[struct_name].index(field_name)

    # ---------- path state ----------
    def reset_path(self, prefix):
        self.prefix = prefix; self.decisions = []; self.pending = []
        self.solver = z3.Solver()
        self.steps = 0; self.depth = 0
        self.hooks = {}

    def check(self, *conds):
        t = time.time()
        self.stats['solver_calls'] += 1
        r = self.solver.check(*conds)
        self.stats['solver_time'] += time.time() - t
        if r == z3.unknown: raise Unsupported('solver returned unknown')
        return r

    def assume(self, cond):
        if cond is True: return
        if cond is False: raise Infeasible()
        self.solver.add(cond)

    def branch(self, cond):
        """decide a boolean; forks when both outcomes are feasible under the path condition"""
        if cond is True or cond is False: return cond
        if isinstance(cond, int): return cond != 0
        cond = z3.simplify(cond)
        if z3.is_true(cond): return True
        if z3.is_false(cond): return False
        k = len(self.decisions)
        if k < len(self.prefix):
            d = self.prefix[k]
            if not isinstance(d, bool): raise Unsupported('prefix mismatch (bool expected, got %r)' % (d,))
            self.decisions.append(d)
            self.solver.add(cond if d else z3.Not(cond))
            return d
        can_t = self.check(cond) == z3.sat
        can_f = self.check(z3.Not(cond)) == z3.sat
        if can_t and can_f:
            self.stats['forks'] += 1
            self.pending.append(self.decisions + [False])
            d = True
        elif can_t: d = True
        elif can_f: d = False
        else: raise Infeasible()
        self.decisions.append(d)
        self.solver.add(cond if d else z3.Not(cond))
        return d

    def concretize(self, v, limit=1024):
        """fork over all feasible values of a symbolic integer"""
        if not is_sym(v): return v
        v = z3.simplify(v)
        if z3.is_bv_value(v): return v.as_long()
        if z3.is_bool(v): return self.branch(v)
        k = len(self.decisions)
        if k < len(self.prefix):
            d = self.prefix[k]
            if not isinstance(d, tuple): raise Unsupported('prefix mismatch (value expected)')
            c = d[1]
            self.decisions.append(('val', c)); self.solver.add(v == c)
            return c
        vals = []
        self.solver.push()
        while self.check() == z3.sat:
            c = self.solver.model().eval(v, model_completion=True).as_long()
            vals.append(c); self.solver.add(v != c)
            if len(vals) > limit: raise Unsupported('concretize: more than %d feasible values' % limit)
        self.solver.pop()
        if not vals: raise Infeasible()
        vals.sort()
        for c in vals[1:]:
            self.pending.append(self.decisions + [('val', c)])
        if len(vals) > 1: self.stats['forks'] += len(vals) - 1
        self.decisions.append(('val', vals[0])); self.solver.add(v == vals[0])
        return vals[0]

    def choose(self, n, label='choice'):
        """harness/model-level nondeterministic choice among range(n) (all outcomes explored)"""
        if n <= 0: raise Infeasible()
        if n == 1: return 0
        k = len(self.decisions)
        if k < len(self.prefix):
            c = self.prefix[k][1]
            self.decisions.append(('val', c)); return c
        for c in range(1, n):
            self.pending.append(self.decisions + [('val', c)])
        self.stats['forks'] += n - 1
        self.decisions.append(('val', 0))
        return 0

    # ---------- values ----------
    def copyval(self, v):
        t = type(v)
        if t is Struct: return Struct([self.copyval(x) for x in v.f])
        if t is Enum: return Enum(v.v, [self.copyval(x) for x in v.f], v.ty)
        return v

    def eq_vals(self, a, b):
        """structural equality -> python bool or z3 Bool"""
        while isinstance(a, Ref): a = a.get()
        while isinstance(b, Ref): b = b.get()
        if isinstance(a, Struct):
            return self.and_all([self.eq_vals(x, y) for x, y in zip(a.f, b.f)])
        if isinstance(a, Enum):
            if a.v != b.v: return False
            return self.and_all([self.eq_vals(x, y) for x, y in zip(a.f, b.f)])
        if isinstance(a, StrBuf): a = a.s
        if isinstance(b, StrBuf): b = b.s
        if isinstance(a, str) or isinstance(b, str): return a == b
        if isinstance(a, (VecObj,)):
            if len(a.items) != len(b.items): return False
            return self.and_all([self.eq_vals(x, y) for x, y in zip(a.items, b.items)])
        if isinstance(a, SliceRef):
            if a.n != b.n: return False
            return self.and_all([self.eq_vals(x, y) for x, y in zip(a.aslist(), b.aslist())])
        if is_sym(a) or is_sym(b):
            if isinstance(a, bool) and z3.is_bool(b): return b if a else z3.Not(b)
            if isinstance(b, bool) and z3.is_bool(a): return a if b else z3.Not(a)
            return a == b
        return a == b

    def and_all(self, cs):
        if any(c is False for c in cs): return False
        cs = [c for c in cs if c is not True]
        if not cs: return True
        return z3.And(*cs) if len(cs) > 1 else cs[0]

    def or_all(self, cs):
        if any(c is True for c in cs): return True
        cs = [c for c in cs if c is not False]
        if not cs: return False
        return z3.Or(*cs) if len(cs) > 1 else cs[0]

    def not_(self, c):
        if c is True: return False
        if c is False: return True
        return z3.Not(c)

    # ---------- places ----------
    def parse_place(self, s):
        s = s.strip()
        r = self.place_cache.get(s)
        if r is None:
            r = self._parse_place(s)
            self.place_cache[s] = r
        return r

    def _parse_place(self, s):
        if s.endswith(']') and not s.startswith('['):
            depth = 0
            for j in range(len(s) - 1, -1, -1):
                if s[j] == ']': depth += 1
                elif s[j] == '[':
                    depth -= 1
                    if depth == 0: break
            base = s[:j]; idx = s[j+1:-1]
            m = re.match(r'^(-?\d+) of (\d+)$', idx)
            if m: return ('cindex', self._parse_place(base), int(m.group(1)))
            m = re.match(r'^(\d+):(-?\d*)$', idx)
            if m: return ('subslice', self._parse_place(base), int(m.group(1)), int(m.group(2)) if m.group(2) else 0)
            return ('index', self._parse_place(base), self._parse_place(idx))
        m = re.match(r'^_(\d+)$', s)
        if m: return ('local', int(m.group(1)))
        if s.startswith('(*') and find_matching(s, 0) == len(s) - 1:
            return ('deref', self._parse_place(s[2:-1]))
        if s.startswith('(') and find_matching(s, 0) == len(s) - 1:
            inner = s[1:-1]
            m = re.match(r'^(.*) as (\w+)$', inner)
            if m and (m.group(1).startswith('(') or m.group(1).startswith('_')):
                return ('downcast', self._parse_place(m.group(1)), m.group(2))
            depth = 0; j = 0; pos = None
            while j < len(inner):
                c = inner[j]
                if c in '([{<': depth += 1
                elif c in ')]}' or (c == '>' and inner[j-1] not in '-='): depth -= 1
                elif c == '.' and depth == 0:
                    mm = re.match(r'\.(\d+): ', inner[j:])
                    if mm: pos = j; fld = int(mm.group(1)); ty = inner[j + len(mm.group(0)):]; break
                j += 1
            if pos is None: raise Unsupported('place ' + s)
            return ('field', self._parse_place(inner[:pos]), fld, ty)
        raise Unsupported('place ' + s)

    def loc(self, fr, p):
        k = p[0]
        if k == 'local': return (fr, p[1])
        if k == 'field':
            lst, i = self.loc(fr, p[1])
            v = lst[i]
            if isinstance(v, (Struct, Enum, Closure)):
                return (v.f, p[2])
            return (lst, i)          # transparent wrapper projections (Box/Unique/NonNull/ManuallyDrop ...)
        if k == 'deref':
            v = self.read(fr, p[1])
            if isinstance(v, Ref): return (v.lst, v.i)
            if isinstance(v, SliceRef): return ([SliceVal(v)], 0)
            if isinstance(v, CellObj): return (v.c, 0)
            if isinstance(v, str): return ([v], 0)
            raise Unsupported('deref of %r' % (v,))
        if k == 'downcast':
            lst, i = self.loc(fr, p[1])
            v = lst[i]
            while isinstance(v, CellObj) and v.kind == 'box': lst, i = v.c, 0; v = lst[i]          # a variant of the content of a Box
            if not isinstance(v, Enum) or v.v != p[2]:
                raise Unsupported('downcast %s of %r' % (p[2], v))
            return (lst, i)
        if k == 'index' or k == 'cindex':
            lst, i = self.loc(fr, p[1])
            v = lst[i]
            idx = p[2] if k == 'cindex' else self.read(fr, p[2])
            idx = self.concretize(idx)
            if isinstance(v, SliceVal):
                if idx >= v.r.n: raise RustPanic('index out of bounds')
                return (v.r.items, v.r.start + idx)
            if isinstance(v, Struct):
                if idx >= len(v.f): raise RustPanic('index out of bounds')
                return (v.f, idx)
            raise Unsupported('index into %r' % (v,))
        if k == 'subslice':
            lst, i = self.loc(fr, p[1])
            v = lst[i]
            if isinstance(v, SliceVal):
                return ([SliceVal(SliceRef(v.r.items, v.r.start + p[2], v.r.n - p[2] + p[3]))], 0)
            raise Unsupported('subslice of %r' % (v,))
        raise Unsupported('loc ' + repr(p))

    def read(self, fr, p):
        if p[0] == 'local': return fr[p[1]]
        lst, i = self.loc(fr, p)
        return lst[i]

    def write(self, fr, p, v):
        if p[0] == 'local': fr[p[1]] = v; return
        lst, i = self.loc(fr, p)
        lst[i] = v

    # ---------- operands ----------
    def operand(self, fr, fn, s):
        return self.ev(fr, fn, self.compile_operand(fn, s))

    def compile_operand(self, fn, s):
        s = s.strip()
        c = s[:5]
        if c == 'copy ': return (0, self.parse_place(s[5:]))
        if c == 'move ': return (1, self.parse_place(s[5:]))
        if s.startswith('const '): return (2, s[6:])
        if s.startswith('no_retag '): return self.compile_operand(fn, s[9:])
        if self.resolve(s) is not None: return (3, s)
        if re.match(r'^(<.*>|[\w:]+)::\w+(::<.*>)?$', s): return (3, s)      # fn item without MIR (library function passed as a value)
        if re.match(r'^[a-z_]\w*(::<.*>)?$', s) and not re.match(r'^_\d+$', s): return (3, s)   # imported free function of another crate (`natural_lexical_cmp`)
        raise Unsupported('operand ' + s)

    def ev(self, fr, fn, o):
        k = o[0]
        if k == 0:
            p = o[1]
            v = fr[p[1]] if p[0] == 'local' else self.read(fr, p)
            t = type(v)
            if t is Struct or t is Enum: return self.copyval(v)
            return v
        if k == 1:
            p = o[1]
            return fr[p[1]] if p[0] == 'local' else self.read(fr, p)
        if k == 2: return self.const(fn, o[1])
        return FnRef(o[1])

    def const(self, fn, s):
        key = (fn.name, s) if 'promoted[' in s else s
        plan = self.const_cache.get(key)
        if plan is None:
            plan = self.const_plan(fn, s.strip())
            self.const_cache[key] = plan
        k = plan[0]
        if k == 'val': return plan[1]
        if k == 'call': return self.call_mir(plan[1], [])
        if k == 'enum': return Enum(plan[1], [], plan[2])
        if k == 'closure': return Closure(plan[1], [])
        if k == 'fnref': return FnRef(plan[1])
        if k == 'bytes': return Struct(list(plan[1]))
        if k == 'tuple': return Struct([self.const(fn, x) for x in plan[1]])
        raise Unsupported('const plan')

    def const_plan(self, fn, s):
        m = re.match(r'^(-?\d+)_(\w+)$', s)
        if m:
            v = int(m.group(1))
            w, sg = INT_TYPES.get(m.group(2), (64, False))
            if v < 0: v += 1 << w
            return ('val', v)
        if s in ('true', 'false'): return ('val', s == 'true')
        if s == '()': return ('val', UNIT)
        m = re.match(r'^(-?[\d.eE+-]+)f(32|64)$', s)
        if m: return ('val', float(m.group(1)))
        mnum = re.match(r'^(?:core|std)::num::<impl (\w+)>::(MAX|MIN)$', s) or re.match(r'^(\w+)::(MAX|MIN)$', s)
        if mnum and mnum.group(1) in INT_TYPES:
            w, sg = INT_TYPES[mnum.group(1)]
            if mnum.group(2) == 'MAX': return ('val', (1 << (w - 1)) - 1 if sg else (1 << w) - 1)
            return ('val', (1 << (w - 1)) if sg else 0)
        if s == 'log::STATIC_MAX_LEVEL': return ('enum', 'Trace', 'LevelFilter')
        _segs = strip_generics(s).split('::')
        if len(_segs) >= 2 and _segs[-2] in self.enums and _segs[-1] in self.enums[_segs[-2]]:
            return ('enum', _segs[-1], _segs[-2])
        if s.startswith('"'): return ('val', eval(s))
        if s.startswith('b"'): return ('bytes', eval(s))
        if s.startswith("'"): return ('val', ord(eval(s)))
        if s.startswith('ZeroSized: '):
            t = s[11:]
            m = re.match(r'^\{closure@(.*)\}$', t)
            if m: return ('closure', m.group(1))
            return ('fnref', t)
        m = re.match(r'^(.*)::promoted\[(\d+)\]$', s)
        if m and (fn.name + '::promoted[' + m.group(2) + ']') in self.fns:
            return ('call', self.fns[fn.name + '::promoted[' + m.group(2) + ']'])
        if m or strip_generics(s) in self.fns or s in self.fns:
            name = s if s in self.fns else strip_generics(s)
            if name in self.fns: return ('call', self.fns[name])
        segs = strip_generics(s).split('::')
        if len(segs) >= 2:
            for f in self.by_method.get(segs[-1], []):          # associated consts such as bdd::Term::TOP
                if f.nargs == 0 and f.impl_span:
                    h = self.impl_header(f.impl_span)
                    if h and h[1] == segs[-2]: return ('call', f)
        m = re.match(r'^\{closure@(.*)\}$', s)
        if m: return ('closure', m.group(1))
        if s.startswith('(') and find_matching(s, 0) == len(s) - 1:
            return ('tuple', split_top(s[1:-1]))
        if self.resolve(s) is not None or re.match(r'^(<.*>|[\w:<>\', ]+)::\w+(::<.*>)?$', s): return ('fnref', s)
        raise Unsupported('const ' + s)

    def ty_of_operand(self, fn, s):
        s = s.strip()
        m = re.match(r'^const -?\d+_(\w+)$', s)
        if m: return m.group(1)
        if s in ('const true', 'const false'): return 'bool'
        m = re.match(r'^(?:copy|move) (.*)$', s)
        if m:
            p = self.parse_place(m.group(1))
            if p[0] == 'local': return fn.locals.get(p[1])
            if p[0] == 'field': return p[3]
            if p[0] == 'deref' and p[1][0] == 'local':
                t = fn.locals.get(p[1][1], '')
                return re.sub(r"^&(?:'\w+ )?(?:mut )?", '', t)
        return None

    # ---------- integer ops ----------
    def binop(self, op, a, b, ty):
        if ty == 'bool' or isinstance(a, bool) or isinstance(b, bool) or (is_sym(a) and z3.is_bool(a)) or (is_sym(b) and z3.is_bool(b)):
            sym = is_sym(a) or is_sym(b)
            if op == 'Eq': return self.eq_vals(a, b)
            if op == 'Ne': return self.not_(self.eq_vals(a, b))
            if op == 'BitAnd': return self.and_all([a, b])
            if op == 'BitOr': return self.or_all([a, b])
            if op == 'BitXor': return z3.Xor(a, b) if sym else (a != b)
            if op in ('Lt', 'Le', 'Gt', 'Ge', 'Cmp'):
                a = self.branch(a); b = self.branch(b)
                if op == 'Cmp': return Enum('Less' if a < b else 'Equal' if a == b else 'Greater', [], 'Ordering')
                return {'Lt': a < b, 'Le': a <= b, 'Gt': a > b, 'Ge': a >= b}[op]
            raise Unsupported('bool op ' + op)
        w, signed = INT_TYPES.get(ty, (64, False))
        if not (is_sym(a) or is_sym(b)):
            mask = (1 << w) - 1
            if signed:
                A = a & mask; B = b & mask
                if A >> (w - 1): A -= 1 << w
                if B >> (w - 1): B -= 1 << w
            else:
                A = a & mask; B = b & mask
            if op == 'Eq': return A == B
            if op == 'Ne': return A != B
            if op == 'Lt': return A < B
            if op == 'Le': return A <= B
            if op == 'Gt': return A > B
            if op == 'Ge': return A >= B
            if op in ('Add', 'AddWithOverflow', 'AddUnchecked'): r = A + B
            elif op in ('Sub', 'SubWithOverflow', 'SubUnchecked'): r = A - B
            elif op in ('Mul', 'MulWithOverflow', 'MulUnchecked'): r = A * B
            elif op == 'Div':
                if B == 0: raise RustPanic('division by zero')
                r = abs(A) // abs(B) * (1 if (A < 0) == (B < 0) else -1)
            elif op == 'Rem':
                if B == 0: raise RustPanic('rem by zero')
                r = abs(A) % abs(B) * (1 if A >= 0 else -1)
            elif op == 'BitAnd': r = A & B
            elif op == 'BitOr': r = A | B
            elif op == 'BitXor': r = A ^ B
            elif op in ('Shl', 'ShlUnchecked'): r = A << (B % w)
            elif op in ('Shr', 'ShrUnchecked'): r = A >> (B % w)
            elif op == 'Cmp': return Enum('Less' if A < B else 'Equal' if A == B else 'Greater', [], 'Ordering')
            else: raise Unsupported('binop ' + op)
            if op.endswith('WithOverflow'):
                lo, hi = (-(1 << (w - 1)), (1 << (w - 1)) - 1) if signed else (0, mask)
                return Struct([r & mask, not (lo <= r <= hi)])
            return r & mask
        if not is_sym(a): a = z3.BitVecVal(a, b.size())
        if not is_sym(b): b = z3.BitVecVal(b, a.size())
        if op == 'Eq': return a == b
        if op == 'Ne': return a != b
        if op == 'Lt': return a < b if signed else z3.ULT(a, b)
        if op == 'Le': return a <= b if signed else z3.ULE(a, b)
        if op == 'Gt': return a > b if signed else z3.UGT(a, b)
        if op == 'Ge': return a >= b if signed else z3.UGE(a, b)
        if op in ('Add', 'AddUnchecked'): return a + b
        if op in ('Sub', 'SubUnchecked'): return a - b
        if op in ('Mul', 'MulUnchecked'): return a * b
        if op == 'BitAnd': return a & b
        if op == 'BitOr': return a | b
        if op == 'BitXor': return a ^ b
        if op in ('Shl', 'ShlUnchecked'): return a << (b & (w - 1))
        if op in ('Shr', 'ShrUnchecked'): return (a >> (b & (w - 1))) if signed else z3.LShR(a, b & (w - 1))
        if op == 'Div':
            if self.branch(b == 0): raise RustPanic('division by zero')
            return a / b if signed else z3.UDiv(a, b)
        if op == 'Rem':
            if self.branch(b == 0): raise RustPanic('rem by zero')
            return z3.SRem(a, b) if signed else z3.URem(a, b)
        if op == 'Cmp':
            if self.branch(a < b if signed else z3.ULT(a, b)): return Enum('Less', [], 'Ordering')
            if self.branch(a == b): return Enum('Equal', [], 'Ordering')
            return Enum('Greater', [], 'Ordering')
        if op == 'AddWithOverflow':
            ov = z3.Not(z3.BVAddNoOverflow(a, b, False)) if not signed else z3.Or(z3.Not(z3.BVAddNoOverflow(a, b, True)), z3.Not(z3.BVAddNoUnderflow(a, b)))
            return Struct([a + b, ov])
        if op == 'SubWithOverflow':
            ov = z3.Not(z3.BVSubNoUnderflow(a, b, False)) if not signed else z3.Or(z3.Not(z3.BVSubNoOverflow(a, b)), z3.Not(z3.BVSubNoUnderflow(a, b, True)))
            return Struct([a - b, ov])
        if op == 'MulWithOverflow':
            ov = z3.Not(z3.BVMulNoOverflow(a, b, signed))
            if signed: ov = z3.Or(ov, z3.Not(z3.BVMulNoUnderflow(a, b)))
            return Struct([a * b, ov])
        raise Unsupported('sym binop ' + op)

    # ---------- rvalues ----------
    def compile_rvalue(self, fn, s, dst_ty):
        c0 = s[0]
        if c0 == '&':
            m = re.match(r"^&(?:raw (?:const|mut) )?(?:mut )?(?:fake shallow )?(?:\(fake\) )?(.*)$", s)
            return ('ref', self.parse_place(m.group(1)))
        if s.startswith(('copy ', 'move ', 'const ', 'no_retag ')) and not CAST_RE.match(s):
            return ('use', self.compile_operand(fn, s))
        m = re.match(r'^(\w+)\((.*)\)$', s)
        if m and m.group(1) in BINOPS:
            a_s, b_s = split_top(m.group(2))
            ty = self.ty_of_operand(fn, a_s) or self.ty_of_operand(fn, b_s) or 'usize'
            return ('binop', m.group(1), self.compile_operand(fn, a_s), self.compile_operand(fn, b_s), ty)
        if m and m.group(1) in ('Not', 'Neg'):
            return ('unop', m.group(1), self.compile_operand(fn, m.group(2)), dst_ty)
        if s.startswith('discriminant('):
            return ('discr', self.parse_place(s[13:-1]))
        if s.startswith('PtrMetadata('):
            return ('ptrmeta', self.compile_operand(fn, s[12:-1]))
        if c0 == '[':
            j = find_matching(s, 0)
            if j == len(s) - 1:
                inner = s[1:-1]
                parts = split_top(inner, ';')
                if len(parts) == 2 and re.match(r'^\d+$', parts[1].strip()):
                    return ('repeat', self.compile_operand(fn, parts[0]), int(parts[1]))
                return ('tuple', [self.compile_operand(fn, x) for x in split_top(inner)])
        if c0 == '(' and not s.startswith('(*') and find_matching(s, 0) == len(s) - 1 and not re.match(r'^\(.*\.\d+: ', s):
            inner = s[1:-1].strip()
            if inner.endswith(','): inner = inner[:-1]
            return ('tuple', [self.compile_operand(fn, x) for x in split_top(inner)])
        m = CAST_RE.match(s)
        if m:
            return ('cast', self.compile_operand(fn, m.group(1)), m.group(3), m.group(2), self.ty_of_operand(fn, m.group(1)))
        if s.startswith('{closure@'):
            j = find_matching(s, 0)
            span = s[9:j]
            rest = s[j+1:].strip()
            f = []
            if rest.startswith('{'):
                inner = rest[1:-1].strip()
                for part in split_top(inner):
                    nm, val = part.split(': ', 1)
                    f.append(val.strip())
            full = self.closure_ops.get(span)
            if full is not None:
                if [x for x in full[:len(f)]] != f and len(full) == len(f): raise Unsupported('closure capture mismatch at ' + span)
                f = full
            elif self.closure_ops:
                raise Unsupported('closure %s not in the stable-MIR capture table' % span)
            return ('closure', span, [self.compile_operand(fn, x) for x in f])
        # Path::Variant(args) / Path(args) / Path { fields } / Path::Unit
        if s.endswith(')') and c0 != '(':
            io = self.call_open(s)
            path = strip_generics(s[:io]); args = [self.compile_operand(fn, x) for x in split_top(s[io+1:-1])]
            segs = path.split('::')
            if len(segs) >= 2 and segs[-2] in self.enums and segs[-1] in self.enums[segs[-2]]:
                return ('enum', segs[-1], segs[-2], args)
            if len(segs) == 1 and dst_ty:
                # variant printed without its enum path (`Variable(move _4)`): the destination's type names the enum
                dt = strip_generics(dst_ty).split('::')[-1].strip()
                if dt in self.enums and segs[0] in self.enums[dt] and dt not in self.structs: return ('enum', segs[0], dt, args)
            return ('tuple', args)
        m = re.match(r'^([\w:<>\', &\[\];()]+?) \{(.*)\}$', s)
        if m:
            path = strip_generics(m.group(1)); inner = m.group(2).strip()
            vals = []
            for part in split_top(inner):
                nm, val = part.split(': ', 1)
                vals.append(self.compile_operand(fn, val))
            segs = path.split('::')
            if len(segs) >= 2 and segs[-2] in self.enums and segs[-1] in self.enums[segs[-2]]:
                return ('enum', segs[-1], segs[-2], vals)
            return ('tuple', vals)
        path = strip_generics(s); segs = path.split('::')
        if len(segs) >= 2 and segs[-2] in self.enums and segs[-1] in self.enums[segs[-2]]:
            return ('enum', segs[-1], segs[-2], [])
        if re.match(r'^[\w:]+$', path) and (segs[-1] in self.structs or segs[-1][:1].isupper()):
            return ('tuple', [])         # unit struct
        if self.resolve(s) is not None: return ('use', (3, s))
        raise Unsupported('rvalue ' + s)

    def eval_rvalue(self, fr, fn, r):
        k = r[0]
        if k == 'use': return self.ev(fr, fn, r[1])
        if k == 'ref':
            p = r[1]
            lst, i = self.loc(fr, p)
            v = lst[i]
            if type(v) is SliceVal: return v.r
            if isinstance(v, str) and p[0] == 'deref': return v
            return Ref(lst, i)
        if k == 'tuple': return Struct([self.ev(fr, fn, x) for x in r[1]])
        if k == 'enum': return Enum(r[1], [self.ev(fr, fn, x) for x in r[3]], r[2])
        if k == 'binop':
            return self.binop(r[1], self.ev(fr, fn, r[2]), self.ev(fr, fn, r[3]), r[4])
        if k == 'discr': return self.discr(self.read(fr, r[1]))
        if k == 'unop':
            a = self.ev(fr, fn, r[2]); dst_ty = r[3]
            if r[1] == 'Not':
                if isinstance(a, bool): return not a
                if is_sym(a): return z3.Not(a) if z3.is_bool(a) else ~a
                w, _ = INT_TYPES.get(dst_ty, (64, False)); return (~a) & ((1 << w) - 1)
            w, _ = INT_TYPES.get(dst_ty, (64, True)); return (-a) & ((1 << w) - 1) if not is_sym(a) else -a
        if k == 'ptrmeta':
            v = self.ev(fr, fn, r[1])
            if isinstance(v, SliceRef): return v.n
            if isinstance(v, str): return len(v.encode())
            raise Unsupported('PtrMetadata of %r' % (v,))
        if k == 'repeat':
            v = self.ev(fr, fn, r[1])
            return Struct([self.copyval(v) for _ in range(r[2])])
        if k == 'closure': return Closure(r[1], [self.ev(fr, fn, x) for x in r[2]])
        if k == 'cast':
            v = self.ev(fr, fn, r[1]); kind = r[2]; ty = r[3]; sty = r[4]
            if kind == 'IntToInt':
                w, sg = INT_TYPES.get(ty, (64, False))
                if is_sym(v):
                    if z3.is_bool(v): return z3.If(v, z3.BitVecVal(1, w), z3.BitVecVal(0, w))
                    if v.size() > w: return z3.Extract(w - 1, 0, v)
                    if v.size() < w:
                        ssg = INT_TYPES.get(sty, (64, False))[1]
                        return z3.SignExt(w - v.size(), v) if ssg else z3.ZeroExt(w - v.size(), v)
                    return v
                if isinstance(v, bool): return int(v)
                if isinstance(v, Enum): return self.discr(v) & ((1 << w) - 1)
                sw, ssg = INT_TYPES.get(sty, (64, False))
                if ssg and (v >> (sw - 1)) & 1: v -= 1 << sw
                return v & ((1 << w) - 1)
            if kind == 'PointerCoercion':
                if isinstance(v, Ref):
                    x = v.get()
                    if isinstance(x, Struct) and (ty.startswith('&[') or ty.startswith('&mut [') or re.match(r"^&'\w+ (mut )?\[", ty)):
                        return SliceRef(x.f, 0, len(x.f))
                return v
            if kind in ('Transmute', 'PtrToPtr', 'Subtype'):
                return v
            raise Unsupported('cast kind ' + kind)
        raise Unsupported('rvalue kind ' + k)

    def rvalue(self, fr, fn, s, dst_ty):
        return self.eval_rvalue(fr, fn, self.compile_rvalue(fn, s.strip(), dst_ty))

    def discr(self, v):
        if isinstance(v, Ref): v = v.get()
        while isinstance(v, CellObj) and v.kind == 'box': v = v.c[0]          # match on the content of a Box (deref patterns / box moves)
        if isinstance(v, Enum):
            ty = v.ty
            if ty is None:
                cands = [en for en, vs in self.enums.items() if v.v in vs]
                if len(cands) != 1:
                    ds = set(self.enum_discr.get((en, v.v), self.enums[en].index(v.v)) for en in cands)
                    if len(ds) != 1: raise Unsupported('ambiguous enum variant %s' % v.v)
                ty = cands[0]
            d = self.enum_discr.get((ty, v.v))
            if d is None: d = self.enums[ty].index(v.v)
            return d
        raise Unsupported('discriminant of %r' % (v,))

    # ---------- calls ----------
    def resolve(self, callee):
        """callee string from a call terminator -> Fn or None"""
        if callee in self.call_cache: return self.call_cache[callee]
        r = self._resolve(callee)
        self.call_cache[callee] = r
        return r

    EXTERNAL_CRATES = ('biodivine_lib_bdd::',)

    def _resolve(self, callee):
        if callee in self.fns: return self.fns[callee]
        if callee.startswith(self.EXTERNAL_CRATES): return None       # inherent functions of a foreign crate: never one of ours with the same name
        c = strip_generics(callee)
        if c in self.fns: return self.fns[c]
        if callee.startswith('<'):
            j = find_matching(callee, 0)
            inner = callee[1:j]; meth = strip_generics(callee[j+1:]).lstrip(':')
            parts = inner.rsplit(' as ', 1)
            if len(parts) == 2:
                ty = strip_generics(parts[0]).split('::')[-1].lstrip('&').replace('mut ', '').strip()
                ty = re.sub(r"^'\w+ ", '', ty)
                tr = strip_generics(parts[1]).split('::')[-1]
                cands = []
                for f in self.by_method.get(meth, []):
                    if f.impl_span:
                        h = self.impl_header(f.impl_span)
                        if h and h[0] == tr and h[1] == ty: cands.append(f)
                if len(cands) == 1: return cands[0]
                if len(cands) > 1:
                    # several impls of a generic trait for one type (From<A>, From<B>): match on the parameter type
                    tparam = re.search(r'<(.*)>$', parts[1].strip())
                    if tparam:
                        def norm(t): return re.sub(r"'\w+ ", '', re.sub(r'(\w+::)+', '', t)).replace(' ', '')
                        hits = [f for f in cands if f.params and norm(f.params[0][1]) == norm(tparam.group(1))]
                        if len(hits) == 1: return hits[0]
                        want = strip_generics(tparam.group(1)).replace(' ', '').split('::')[-1]
                        for f in cands:
                            pty = strip_generics(f.params[0][1]).replace(' ', '').split('::')[-1] if f.params else ''
                            if pty == want: return f
                        for f in cands:
                            if f.params and tparam.group(1).replace(' ', '') == f.params[0][1].replace(' ', ''): return f
                    raise Unsupported('ambiguous impl for ' + callee)
            return None
        segs = c.split('::')
        meth = segs[-1]
        mi = re.search(r'<impl ([^<>]+)>::(\w+)$', callee)
        if mi:
            ty = mi.group(1).split('::')[-1].strip()
            for f in self.by_method.get(meth, []):
                if f.impl_span and '{closure' not in f.name:
                    h = self.impl_header(f.impl_span)
                    if h and h[0] is None and h[1] == ty: return f
        if len(segs) >= 2:
            ty = segs[-2]
            cands = []
            for f in self.by_method.get(meth, []):
                if f.impl_span and '{closure' not in f.name:
                    h = self.impl_header(f.impl_span)
                    if h and h[0] is None and h[1] == ty: cands.append(f)
            if len(cands) > 1 and len(segs) >= 3:
                # two types of the same name in different modules (adf::Adf / adfbiodivine::Adf): the module decides
                mod = segs[-3]
                hit = [f for f in cands if f.name.split('::')[0] == mod or re.search(r'(?:^|/)%s\.rs:' % re.escape(mod), f.impl_span)]
                if hit: return hit[0]
            if cands: return cands[0]
        for f in self.by_method.get(meth, []):
            if not f.impl_span and (f.name == c or f.name.endswith('::' + c) or c.endswith('::' + f.name)): return f
        return None

    def call(self, callee, args):
        f = self.resolve(callee)
        if f is not None:
            return self.call_mir(f, args)
        return self.call_model(callee, args)

    def call_value(self, fv, args):
        """call a closure / fn item value with an argument list"""
        while isinstance(fv, Ref): fv = fv.get()
        if isinstance(fv, CellObj): fv = fv.c[0]
        if isinstance(fv, Closure):
            f = self.closure_by_span[fv.span]
            self_ty = f.params[0][1]
            envarg = Ref([fv], 0) if self_ty.startswith('&') else fv
            return self.call_mir(f, [envarg] + list(args))
        if isinstance(fv, FnRef):
            return self.call(fv.name, list(args))
        if callable(fv):
            return fv(self, list(args))
        raise Unsupported('call_value %r' % (fv,))

    def call_mir(self, f, args):
        self.depth += 1
        if self.depth > self.max_depth: raise BoundExceeded('call depth')
        self.fn_hits[f.name] = self.fn_hits.get(f.name, 0) + 1
        try:
            nloc = max(f.locals.keys()) + 1 if f.locals else 1
            fr = [None] * nloc
            for (idx, ty), a in zip(f.params, args): fr[idx] = a
            bb = 0
            blocks = f.blocks
            while True:
                stmts = blocks[bb]
                for s in stmts[:-1]:
                    self.exec_stmt(fr, f, s)
                self.steps += len(stmts)
                if self.steps > self.max_steps: raise BoundExceeded('steps')
                nxt = self.exec_term(fr, f, stmts[-1])
                if nxt is None: return fr[0] if fr[0] is not None else UNIT
                bb = nxt
        finally:
            self.depth -= 1

    def exec_stmt(self, fr, fn, s):
        pre = fn.stmt_cache.get(s)
        if pre is None:
            if s.startswith(NOP_PREFIXES): pre = None, None
            else:
                m = re.match(r'^(.*?) = (.*);$', s, re.S)
                if not m: raise Unsupported('stmt ' + s)
                dst = self.parse_place(m.group(1))
                dty = fn.locals.get(dst[1]) if dst[0] == 'local' else (dst[3] if dst[0] == 'field' else None)
                pre = (dst, self.compile_rvalue(fn, m.group(2).strip(), dty))
            fn.stmt_cache[s] = pre
        dst = pre[0]
        if dst is None: return
        v = self.eval_rvalue(fr, fn, pre[1])
        if dst[0] == 'local': fr[dst[1]] = v
        else: self.write(fr, dst, v)

    def compile_term(self, fn, t):
        if t.startswith('goto -> bb'): return ('goto', int(t[10:-1]))
        if t == 'return;': return ('return',)
        if t.startswith('switchInt('):
            j = find_matching(t, 9)
            m = re.match(r'^-> \[(.*)\];$', t[j+1:].strip())
            arms = []; other = None
            for part in split_top(m.group(1)):
                k, bbn = part.split(': ')
                if k == 'otherwise': other = int(bbn[2:])
                else: arms.append((int(k), int(bbn[2:])))
            return ('switch', self.compile_operand(fn, t[10:j]), arms, other)
        if t.startswith('assert('):
            j = find_matching(t, 6)
            inner = t[7:j]
            cond_s = split_top(inner)[0]
            neg = cond_s.startswith('!')
            m = re.search(r'success: bb(\d+)', t[j:])
            return ('assert', self.compile_operand(fn, cond_s[1:] if neg else cond_s), neg, int(m.group(1)), inner[:100])
        if t.startswith('drop('):
            j = find_matching(t, 4)
            m = re.search(r'return: bb(\d+)', t)
            return ('drop', self.parse_place(t[5:j]), int(m.group(1)))
        if t == 'unreachable;': return ('unreachable',)
        if t.startswith('resume') or t.startswith('abort'): return ('resume',)
        m = re.match(r'^(?:(.*?) = )?(.*) -> \[return: bb(\d+), unwind[^\]]*\];$', t, re.S)
        bbn = None
        if m:
            dst, callexpr, bbn = m.group(1), m.group(2), int(m.group(3))
        else:
            m2 = re.match(r'^(?:(.*?) = )?(.*) -> unwind[^;]*;$', t, re.S)   # diverging call
            if not m2: m2 = re.match(r'^(?:(.*?) = )?(.*\)) -> bb\d+;$', t, re.S)    # diverging call inside a cleanup-aware region: `-> bbN` is the unwind target
            if not m2: raise Unsupported('terminator ' + t)
            dst, callexpr = None, m2.group(2)
        i = self.call_open(callexpr)
        callee = callexpr[:i]
        args = [self.compile_operand(fn, a) for a in split_top(callexpr[i+1:-1])]
        cv = None
        if callee.startswith(('move _', 'copy _', 'move (', 'copy (')):
            cv = self.compile_operand(fn, callee)
        return ('call', self.parse_place(dst) if dst is not None else None, cv, callee, args, bbn)

    def exec_term(self, fr, fn, t):
        c = fn.stmt_cache.get(t)
        if c is None:
            c = self.compile_term(fn, t); fn.stmt_cache[t] = c
        k = c[0]
        if k == 'goto': return c[1]
        if k == 'call':
            args = [self.ev(fr, fn, a) for a in c[4]]
            if c[2] is not None:
                r = self.call_value(self.ev(fr, fn, c[2]), args)
            else:
                r = self.call(c[3], args)
            if c[5] is None: raise RustPanic('diverging call returned: ' + c[3])
            dst = c[1]
            if dst is not None:
                if dst[0] == 'local': fr[dst[1]] = r
                else: self.write(fr, dst, r)
            return c[5]
        if k == 'return': return None
        if k == 'switch':
            v = self.ev(fr, fn, c[1]); arms = c[2]; other = c[3]
            if isinstance(v, bool) or (is_sym(v) and z3.is_bool(v)):
                tv = self.branch(v)
                for kk, bbn in arms:
                    if (kk != 0) == tv: return bbn
                return other
            if is_sym(v):
                for kk, bbn in arms:
                    if self.branch(v == z3.BitVecVal(kk, v.size())): return bbn
                if other is None: raise Unsupported('switch fallthrough (symbolic)')
                return other
            for kk, bbn in arms:
                if kk == v or (v < 0 and kk == v + (1 << 64)): return bbn
            if other is None: raise Unsupported('switch fallthrough %r' % (v,))
            return other
        if k == 'assert':
            v = self.ev(fr, fn, c[1])
            if c[2]: v = z3.Not(v) if is_sym(v) else (not v)
            if not self.branch(v): raise RustPanic('assert failed: ' + c[4])
            return c[3]
        if k == 'drop':
            try:
                v = self.read(fr, c[1])
            except (Unsupported, IndexError, TypeError, AttributeError):
                v = None
            if v is not None: self.drop_value(v)
            return c[2]
        if k == 'unreachable': raise RustPanic('unreachable')
        if k == 'resume': raise RustPanic('unwind')
        raise Unsupported('terminator kind ' + k)

    def drop_value(self, v, seen=None):
        """drop glue: only objects with observable drop behaviour (channel ends) matter"""
        d = getattr(v, 'on_drop', None)
        if d is not None: d(self); return
        t = type(v)
        if t is Struct or t is Enum or t is Closure:
            for x in v.f: self.drop_value(x)
        elif t is VecObj:
            for x in v.items: self.drop_value(x)
        elif t is CellObj and v.kind in ('box', 'refcell'):
            self.drop_value(v.c[0])

    def call_open(self, s):
        """index of the '(' that opens the argument list (the last top-level paren group); string literals are skipped"""
        depth = 0; last = None; k = 0; n = len(s); instr = False
        while k < n:
            c = s[k]
            if instr:
                if c == '\\': k += 1
                elif c == '"': instr = False
            elif c == '"': instr = True
            elif c == "'" and k + 2 < n and (s[k+2] == "'" or (s[k+1] == '\\' and k + 3 < n and s[k+3] == "'")):
                k += 3 if s[k+1] == '\\' else 2          # char literal such as '(' or '\''
            elif c in '([{': 
                if depth == 0 and c == '(': last = k
                depth += 1
            elif c in ')]}': depth -= 1
            k += 1
        if last is None: raise Unsupported('call ' + s)
        return last

    # ---------- library models ----------
    def find_model(self, callee):
        hit = self.call_cache.get(('model', callee))
        if hit is not None: return hit
        fn = None
        if callee.startswith('<'):
            j = find_matching(callee, 0)
            parts = callee[1:j].rsplit(' as ', 1)
            meth = strip_generics(callee[j+1:]).lstrip(':')
            if len(parts) == 2:
                ty = strip_generics(parts[0]).strip()
                tyl = ty.split('::')[-1]
                tr = strip_generics(parts[1]).split('::')[-1]
                for key in ('<%s as %s>::%s' % (ty, tr, meth), '<%s as %s>::%s' % (tyl, tr, meth), '%s::%s' % (tr, meth), '*::' + meth):
                    fn = self.models.get(key)
                    if fn: break
            else:
                ty = strip_generics(parts[0]).split('::')[-1]
                for key in ('%s::%s' % (ty, meth), '*::' + meth):
                    fn = self.models.get(key)
                    if fn: break
        else:
            mi = re.search(r'<impl (?:[\w:]+::)?(\w+)(?:<[^<>]*>)?>::(\w+)', callee)
            if mi is not None:
                # inherent method of an external type, e.g. biodivine_lib_bdd::_impl_bdd::_impl_util::<impl biodivine_lib_bdd::Bdd>::is_true
                fn = self.models.get('impl %s::%s' % (mi.group(1), mi.group(2)))
            if fn is None:
                c = strip_generics(callee)
                segs = c.split('::')
                for key in (c, '::'.join(segs[-2:]), '*::' + segs[-1]):
                    fn = self.models.get(key)
                    if fn: break
        if fn is None:
            raise Unsupported('no model for call: %s' % (callee,))
        self.call_cache[('model', callee)] = fn
        return fn

    def call_model(self, callee, args):
        fn = self.find_model(callee)
        nm = getattr(fn, 'model_name', fn.__name__)
        self.model_hits[nm] = self.model_hits.get(nm, 0) + 1
        return fn(self, callee, args)
