"""Parallel path exploration: the set of open decision prefixes is a work list shared by N processes."""
import os, sys, time, traceback, importlib, multiprocessing as mp, queue, collections
import z3
from .engine import Engine, RustPanic, BoundExceeded, Infeasible, Unsupported
from . import models as std_models
from . import models_std2

_ENGINES = {}     # feature-key -> Engine   (built in the master before fork, inherited copy-on-write)
_JOBS = []


class Job:
    """one harness instantiation: fn(e, params) is executed once per path"""
    def __init__(self, name, module, func, params=None, engine_key='default', stop_after_violations=None,
                 max_paths=None, canary=False, max_steps=None):
        self.name = name; self.module = module; self.func = func; self.params = params or {}
        self.engine_key = engine_key; self.stop_after_violations = stop_after_violations
        self.max_paths = max_paths; self.canary = canary; self.max_steps = max_steps


def register_engine(key, engine):
    _ENGINES[key] = engine


def make_engine(mir_text, src_root, features=(), src_globs=('lib/src/**/*.rs',), extra_models=()):
    e = Engine(mir_text, src_root, src_globs=src_globs, features=features)
    std_models.install(e)
    models_std2.install(e)
    for m in extra_models: m.install(e)
    return e


def run_path(e, job, prefix):
    fn = getattr(importlib.import_module(job.module), job.func)
    e.reset_path(prefix)
    e.max_steps = job.max_steps or 3_000_000
    e.path_violations = []
    rec = {'status': 'ok', 'info': None, 'err': None}
    try:
        rec['info'] = fn(e, job.params)
    except RustPanic as ex:
        rec['status'] = 'panic'; rec['err'] = str(ex)
        h = e.hooks.get('on_panic')
        if h is not None:
            try: h(e, str(ex))
            except Unsupported as ex2: rec['status'] = 'unsupported'; rec['err'] = str(ex2)
    except BoundExceeded as ex:
        rec['status'] = 'bound'; rec['err'] = str(ex)
        h = e.hooks.get('on_bound')
        if h is not None: h(e, str(ex))
    except Infeasible:
        rec['status'] = 'infeasible'
    except Unsupported as ex:
        rec['status'] = 'unsupported'; rec['err'] = str(ex) + '\n' + traceback.format_exc(limit=6)
    except Exception as ex:          # engine bug: never a silent pass
        rec['status'] = 'unsupported'; rec['err'] = 'internal: %r\n%s' % (ex, traceback.format_exc(limit=12))
    rec['violations'] = e.path_violations
    rec['ndec'] = len(e.decisions)
    rec['steps'] = e.steps
    e.stats['steps'] += e.steps
    return rec


def _work(item):
    job_idx, prefixes, chunk_s = item
    job = _JOBS[job_idx]
    e = _ENGINES[job.engine_key]
    e.stats = {'solver_calls': 0, 'solver_time': 0.0, 'forks': 0, 'steps': 0}
    e.fn_hits = {}; e.model_hits = {}
    local = list(prefixes); out = []
    t0 = time.time()
    while local:
        prefix = local.pop()
        rec = run_path(e, job, prefix)
        local.extend(e.pending)
        out.append(rec)
        if time.time() - t0 > chunk_s: break
        if rec['status'] == 'unsupported': break
    return job_idx, out, local, dict(e.stats), dict(e.fn_hits), dict(e.model_hits)


class JobResult:
    def __init__(self, job):
        self.job = job
        self.status = collections.Counter()
        self.paths = 0
        self.violations = []
        self.errors = []
        self.samples = []
        self.infos = []
        self.stopped = False
        self.max_steps_seen = 0
        self.panics = collections.Counter()


def run_jobs(jobs, nproc=None, deadline_s=None, keep_infos=False, progress=None, violation_cap=150):
    """explore all paths of all jobs; returns (list of JobResult, aggregate dict)"""
    global _JOBS
    _JOBS = jobs
    nproc = nproc or int(os.environ.get('VERIF_NPROC', '0')) or min(16, os.cpu_count() or 4)
    results = [JobResult(j) for j in jobs]
    agg = {'solver_calls': 0, 'solver_time': 0.0, 'forks': 0, 'steps': 0, 'fn_hits': collections.Counter(),
           'model_hits': collections.Counter(), 'timed_out': False}
    work = collections.deque((i, [[]]) for i in range(len(jobs)))
    t_start = time.time()
    ctx = mp.get_context('fork')
    pool = ctx.Pool(nproc)
    done_q = queue.Queue()
    inflight = 0
    try:
        while work or inflight:
            if deadline_s is not None and time.time() - t_start > deadline_s:
                agg['timed_out'] = True; break
            while work and inflight < nproc * 2:
                ji, prefixes = work.popleft()
                r = results[ji]
                if r.stopped: continue
                backlog = len(work)
                chunk_s = 0.3 if backlog < nproc * 2 else 2.0
                pool.apply_async(_work, ((ji, prefixes, chunk_s),), callback=done_q.put, error_callback=done_q.put)
                inflight += 1
            if not inflight: break
            try:
                got = done_q.get(timeout=1.0)
            except queue.Empty:
                continue
            inflight -= 1
            if isinstance(got, BaseException):
                raise got
            ji, recs, leftover, stats, fh, mh = got
            r = results[ji]
            for k in ('solver_calls', 'solver_time', 'forks', 'steps'): agg[k] += stats[k]
            agg['fn_hits'].update(fh); agg['model_hits'].update(mh)
            for rec in recs:
                r.paths += 1
                r.status[rec['status']] += 1
                r.max_steps_seen = max(r.max_steps_seen, rec['steps'])
                if rec['status'] == 'panic': r.panics[rec['err'][:120]] += 1
                if rec['status'] in ('unsupported',): r.errors.append(rec['err'])
                if rec['status'] == 'bound': r.errors.append('bound exceeded: %s' % rec['err'])
                for v in rec['violations']: r.violations.append(v)
                if rec['info'] is not None:
                    if len(r.samples) < 4: r.samples.append(rec['info'])
                    if keep_infos: r.infos.append(rec['info'])
            j = r.job
            if sum(len(x.violations) for x in results if not x.job.canary) >= violation_cap:
                # enough counterexamples to report (only the first few dozen are replayed): stop exploring
                for x in results: x.stopped = True
                work.clear(); continue
            if (j.stop_after_violations and len(r.violations) >= j.stop_after_violations) or \
               (j.max_paths and r.paths >= j.max_paths) or r.status['unsupported']:
                if leftover and j.max_paths and r.paths >= j.max_paths and not j.canary:
                    r.errors.append('path budget exhausted with %d open prefixes' % len(leftover))
                r.stopped = True
                continue
            for p in leftover:
                work.append((ji, [p]))
            if progress and (time.time() - progress[0]) > 10:
                progress[0] = time.time()
                print('  .. %d paths, %d open, %.0fs' % (sum(x.paths for x in results), len(work) + inflight, time.time() - t_start), file=sys.stderr, flush=True)
    finally:
        pool.terminate(); pool.join()
    agg['wall_s'] = time.time() - t_start
    return results, agg
