"""roaring::RoaringBitmap as a 32-bit bit-vector (exact for < 32 members; the harnesses use <= 6)."""
import z3, re
from .engine import *
from .models import M, model, deref, d1, unguard, It, it_list, some, as_it

W = 32
LOCAL = {}
def lmodel(*names):
    def deco(f):
        f.model_name = 'roaring:' + names[0]
        for n in names: LOCAL[n] = f
        return f
    return deco

def bv(x): return x if is_sym(x) else z3.BitVecVal(x, W)
def nbits(e): return getattr(e, 'ng_nv', 8)
def bit(x, i):
    return (z3.Extract(i, i, x) == 1) if is_sym(x) else bool((x >> i) & 1)
def popcount(e, x):
    if not is_sym(x): return bin(x).count('1')
    return z3.Sum([z3.ZeroExt(63, z3.Extract(i, i, x)) for i in range(nbits(e))])

@lmodel('<RoaringBitmap as Default>::default', 'RoaringBitmap::new', 'inherent::new')
def _new(e, c, a): return 0
def bop(name, f):
    def m(e, c, a):
        x, y = deref(a[0]), deref(a[1])
        if is_sym(x) or is_sym(y): return z3.simplify(f(bv(x), bv(y)))
        return f(x, y)
    m.model_name = 'roaring:' + name
    LOCAL['BitAnd::bitand' if name == 'bitand' else 'BitOr::bitor' if name == 'bitor' else 'BitXor::bitxor'] = m
bop('bitand', lambda x, y: x & y); bop('bitor', lambda x, y: x | y); bop('bitxor', lambda x, y: x ^ y)
@lmodel('BitXorAssign::bitxor_assign')
def _bxa(e, c, a):
    r = a[0]; y = deref(a[1]); x = r.get()
    r.set(z3.simplify(bv(x) ^ bv(y)) if is_sym(x) or is_sym(y) else x ^ y); return UNIT
@lmodel('inherent::len')
def _len(e, c, a): return popcount(e, deref(a[0]))
@lmodel('inherent::is_empty')
def _is_empty(e, c, a):
    x = deref(a[0]); return (x == 0)
@lmodel('inherent::contains')
def _contains(e, c, a):
    x = deref(a[0]); i = e.concretize(a[1])
    if i >= W: return False
    return bit(x, i)
@lmodel('inherent::insert')
def _insert(e, c, a):
    r = a[0]; x = r.get(); i = e.concretize(a[1])
    if i >= W: raise Unsupported('bitmap model: member >= 32')
    had = e.branch(bit(x, i))
    r.set(z3.simplify(bv(x) | (1 << i)) if is_sym(x) else x | (1 << i)); return not had
@lmodel('inherent::remove')
def _remove(e, c, a):
    r = a[0]; x = r.get(); i = e.concretize(a[1])
    if i >= W: return False
    had = e.branch(bit(x, i))
    r.set(z3.simplify(bv(x) & ~(1 << i)) if is_sym(x) else x & ~(1 << i)); return had
@lmodel('inherent::min')
def _min(e, c, a):
    x = deref(a[0])
    for i in range(nbits(e)):
        if e.branch(bit(x, i)): return Some(i)
    if is_sym(x):
        if e.branch(x != 0): raise Unsupported('bitmap model: member beyond ng_nv')
    elif x != 0: raise Unsupported('bitmap model: member beyond ng_nv')
    return NONE()
def subset(x, y):
    if is_sym(x) or is_sym(y): return (bv(x) & ~bv(y)) == 0
    return (x & ~y) == 0
@lmodel('cmp::is_subset', 'inherent::is_subset')
def _is_subset(e, c, a): return subset(deref(a[0]), deref(a[1]))
@lmodel('cmp::is_superset', 'inherent::is_superset')
def _is_superset(e, c, a): return subset(deref(a[1]), deref(a[0]))
@lmodel('cmp::is_disjoint', 'inherent::is_disjoint')
def _is_disjoint(e, c, a):
    x, y = deref(a[0]), deref(a[1])
    return ((bv(x) & bv(y)) == 0) if is_sym(x) or is_sym(y) else (x & y) == 0
@lmodel('inherent::intersection_len', 'ops::intersection_len')
def _ilen(e, c, a):
    x, y = deref(a[0]), deref(a[1]); return popcount(e, (bv(x) & bv(y)) if is_sym(x) or is_sym(y) else x & y)
@lmodel('inherent::union_len', 'ops::union_len')
def _ulen(e, c, a):
    x, y = deref(a[0]), deref(a[1]); return popcount(e, (bv(x) | bv(y)) if is_sym(x) or is_sym(y) else x | y)
@lmodel('inherent::clear')
def _clear(e, c, a): a[0].set(0); return UNIT
@lmodel('inherent::max')
def _max(e, c, a):
    x = deref(a[0])
    for i in range(nbits(e) - 1, -1, -1):
        if e.branch(bit(x, i)): return Some(i)
    return NONE()
@lmodel('inherent::iter', '<&RoaringBitmap as IntoIterator>::into_iter', '<RoaringBitmap as IntoIterator>::into_iter')
def _iter(e, c, a):
    x = deref(a[0])
    return it_list([i for i in range(nbits(e)) if e.branch(bit(x, i))])
def assign_op(name, f):
    def m(e, c, a):
        r = a[0]; y = deref(a[1]); x = r.get()
        r.set(z3.simplify(f(bv(x), bv(y))) if is_sym(x) or is_sym(y) else f(x, y)); return UNIT
    m.model_name = 'roaring:' + name
    LOCAL[name] = m
assign_op('BitAndAssign::bitand_assign', lambda x, y: x & y); assign_op('BitOrAssign::bitor_assign', lambda x, y: x | y); assign_op('SubAssign::sub_assign', lambda x, y: x & ~y)
def sub_op(e, c, a):
    x, y = deref(a[0]), deref(a[1])
    return z3.simplify(bv(x) & ~bv(y)) if is_sym(x) or is_sym(y) else x & ~y
sub_op.model_name = 'roaring:sub'; LOCAL['Sub::sub'] = sub_op
@lmodel('<RoaringBitmap as PartialEq>::eq')
def _rb_eq(e, c, a):
    x, y = deref(a[0]), deref(a[1])
    return (bv(x) == bv(y)) if is_sym(x) or is_sym(y) else x == y
@lmodel('<RoaringBitmap as Clone>::clone')
def _clone(e, c, a): return deref(a[0])

def install(e):
    e.models.update(LOCAL)
