"""roaring::RoaringBitmap as a 32-bit bit-vector (exact for < 32 members; the harnesses use <= 6)."""
import z3, re
from .engine import *
from .models import M, model, deref, d1, unguard, It, it_list, some, as_it

W = 32
LOCAL = {}
def lmodel(*names):
    def deco(f):
        f.model_name = 'roaring:' + names[0]
        for n in names: LOCAL[n] = f
        return f
    return deco

def bv(x): return x if is_sym(x) else z3.BitVecVal(x, W)
def nbits(e): return getattr(e, 'ng_nv', 8)
def bit(x, i):
    return (z3.Extract(i, i, x) == 1) if is_sym(x) else bool((x >> i) & 1)
def popcount(e, x):
    if not is_sym(x): return bin(x).count('1')
    return z3.Sum([z3.ZeroExt(63, z3.Extract(i, i, x)) for i in range(nbits(e))])

@lmodel('<RoaringBitmap as Default>::default', 'RoaringBitmap::new', 'inherent::new')
def _new(e, c, a): return 0
def bop(name, f):
    def m(e, c, a):
        x, y = deref(a[0]), deref(a[1])
        if is_sym(x) or is_sym(y): return z3.simplify(f(bv(x), bv(y)))
        return f(x, y)
    m.model_name = 'roaring:' + name
    LOCAL['BitAnd::bitand' if name == 'bitand' else 'BitOr::bitor' if name == 'bitor' else 'BitXor::bitxor'] = m
bop('bitand', lambda x, y: x & y); bop('bitor', lambda x, y: x | y); bop('bitxor', lambda x, y: x ^ y)
@lmodel('BitXorAssign::bitxor_assign')
def _bxa(e, c, a):
    r = a[0]; y = deref(a[1]); x = r.get()
    r.set(z3.simplify(bv(x) ^ bv(y)) if is_sym(x) or is_sym(y) else x ^ y); return UNIT
@lmodel('inherent::len')
def _len(e, c, a): return popcount(e, deref(a[0]))
@lmodel('inherent::is_empty')
def _is_empty(e, c, a):
    x = deref(a[0]); return (x == 0)
@lmodel('inherent::contains')
def _contains(e, c, a):
    x = deref(a[0]); i = e.concretize(a[1])
    if i >= W: return False
    return bit(x, i)
@lmodel('inherent::insert')
def _insert(e, c, a):
    r = a[0]; x = r.get(); i = e.concretize(a[1])
    if i >= W: raise Unsupported('bitmap model: member >= 32')
    had = e.branch(bit(x, i))
    r.set(z3.simplify(bv(x) | (1 << i)) if is_sym(x) else x | (1 << i)); return not had
@lmodel('inherent::remove')
def _remove(e, c, a):
    r = a[0]; x = r.get(); i = e.concretize(a[1])
    if i >= W: return False
    had = e.branch(bit(x, i))
    r.set(z3.simplify(bv(x) & ~(1 << i)) if is_sym(x) else x & ~(1 << i)); return had
@lmodel('inherent::min')
def _min(e, c, a):
    x = deref(a[0])
    for i in range(nbits(e)):
        if e.branch(bit(x, i)): return Some(i)
    if is_sym(x):
        if e.branch(x != 0): raise Unsupported('bitmap model: member beyond ng_nv')
    elif x != 0: raise Unsupported('bitmap model: member beyond ng_nv')
    return NONE()
@lmodel('<RoaringBitmap as Clone>::clone')
def _clone(e, c, a): return deref(a[0])

def install(e):
    e.models.update(LOCAL)
