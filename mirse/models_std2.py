"""Second batch of std models: adaptors and helpers the pinned tree does not use today but a changed tree may.
Same rules as models.py: documented contract only, concrete shapes, scalars may be symbolic."""
import re, functools
import z3
from .engine import *
from .models import (M, model, ckey, deref, d1, unguard, It, it_list, as_it, some, clone_val, map_find, hash_order, as_slice,
                     _into_iter, int_ty, _map_insert)


def ordv(o): return {'Less': -1, 'Equal': 0, 'Greater': 1}[o.v]
def mk_ord(c): return Enum('Less' if c < 0 else 'Equal' if c == 0 else 'Greater', [], 'Ordering')

# ---------------------------------------------------------------- iterator adaptors
@model('*::skip')
def _skip(e, c, a):
    it = as_it(e, c, a[0]); n = e.concretize(a[1]); st = {'done': False}
    def nxt(e_):
        if not st['done']:
            st['done'] = True
            for _ in range(n):
                if it.nxt(e_) is None: return None
        return it.nxt(e_)
    return It(nxt)
@model('*::take')
def _take(e, c, a):
    it = as_it(e, c, a[0]); n = e.concretize(a[1]); st = {'k': 0}
    def nxt(e_):
        if st['k'] >= n: return None
        st['k'] += 1; return it.nxt(e_)
    return It(nxt)
@model('*::step_by')
def _step_by(e, c, a):
    it = as_it(e, c, a[0]); n = e.concretize(a[1]); st = {'first': True}
    if n == 0: raise RustPanic('step_by(0)')
    def nxt(e_):
        if st['first']: st['first'] = False; return it.nxt(e_)
        for _ in range(n - 1):
            if it.nxt(e_) is None: return None
        return it.nxt(e_)
    return It(nxt)
@model('*::skip_while')
def _skip_while(e, c, a):
    it, f = as_it(e, c, a[0]), a[1]; st = {'skipping': True}
    def nxt(e_):
        while True:
            v = it.nxt(e_)
            if v is None: return None
            if st['skipping'] and e.branch(e.call_value(f, [Ref([v], 0)])): continue
            st['skipping'] = False; return v
    return It(nxt)
@model('*::take_while')
def _take_while(e, c, a):
    it, f = as_it(e, c, a[0]), a[1]; st = {'done': False}
    def nxt(e_):
        if st['done']: return None
        v = it.nxt(e_)
        if v is None: return None
        if e.branch(e.call_value(f, [Ref([v], 0)])): return v
        st['done'] = True; return None
    return It(nxt)
@model('*::map_while')
def _map_while(e, c, a):
    it, f = as_it(e, c, a[0]), a[1]; st = {'done': False}
    def nxt(e_):
        if st['done']: return None
        v = it.nxt(e_)
        if v is None: return None
        r = e.call_value(f, [v])
        if r.v == 'Some': return r.f[0]
        st['done'] = True; return None
    return It(nxt)
@model('*::flat_map')
def _flat_map(e, c, a):
    it, f = as_it(e, c, a[0]), a[1]; st = {'cur': None}
    def nxt(e_):
        while True:
            if st['cur'] is not None:
                v = st['cur'].nxt(e_)
                if v is not None: return v
                st['cur'] = None
            o = it.nxt(e_)
            if o is None: return None
            st['cur'] = _into_iter(e, c, [e.call_value(f, [o])])
    return It(nxt)
@model('*::flatten')
def _flatten(e, c, a):
    it = as_it(e, c, a[0]); st = {'cur': None}
    def nxt(e_):
        while True:
            if st['cur'] is not None:
                v = st['cur'].nxt(e_)
                if v is not None: return v
                st['cur'] = None
            o = it.nxt(e_)
            if o is None: return None
            st['cur'] = _into_iter(e, c, [o])
    return It(nxt)
@model('*::inspect')
def _inspect(e, c, a):
    it, f = as_it(e, c, a[0]), a[1]
    def nxt(e_):
        v = it.nxt(e_)
        if v is not None: e.call_value(f, [Ref([v], 0)])
        return v
    return It(nxt)
@model('*::peekable', '*::fuse', '*::by_ref')
def _ident_it(e, c, a):
    v = a[0]
    if isinstance(v, Ref) and isinstance(v.get(), It): return v.get()
    return as_it(e, c, v)
@model('*::last')
def _last(e, c, a):
    if isinstance(a[0], SliceRef) or isinstance(unguard(a[0]), VecObj):
        return M['Vec::last'](e, c, a)
    it = as_it(e, c, a[0]); last = None
    while True:
        v = it.nxt(e)
        if v is None: return some(last)
        last = v
@model('*::nth')
def _nth(e, c, a):
    it = as_it(e, c, a[0]); n = e.concretize(a[1])
    for _ in range(n):
        if it.nxt(e) is None: return NONE()
    return some(it.nxt(e))
@model('*::sum')
def _sum(e, c, a):
    it = as_it(e, c, a[0]); acc = 0
    while True:
        v = it.nxt(e)
        if v is None: return acc
        r = e.binop('AddWithOverflow', acc, deref(v), 'usize')
        if e.branch(r.f[1]): raise RustPanic('attempt to add with overflow (sum)')
        acc = r.f[0]
@model('*::product')
def _product(e, c, a):
    it = as_it(e, c, a[0]); acc = 1
    while True:
        v = it.nxt(e)
        if v is None: return acc
        r = e.binop('MulWithOverflow', acc, deref(v), 'usize')
        if e.branch(r.f[1]): raise RustPanic('attempt to multiply with overflow (product)')
        acc = r.f[0]

def generic_cmp(e, c, x, y):
    """Ord::cmp of two values: integers directly, crate types through their own cmp MIR, tuples lexicographically"""
    x0, y0 = deref(x), deref(y)
    if isinstance(x0, (int, bool)) or is_sym(x0):
        return ordv(M['Ord::cmp'](e, '<usize as Ord>::cmp', [Ref([x0], 0), Ref([y0], 0)]))
    if isinstance(x0, (str, StrBuf)):
        return ordv(M['Ord::cmp'](e, c, [Ref([x0], 0), Ref([y0], 0)]))
    if isinstance(x0, Struct):
        for p, q in zip(x0.f, y0.f):
            r = generic_cmp(e, c, p, q)
            if r != 0: return r
        return 0
    raise Unsupported('cmp of %r' % (x0,))

def typed_cmp(e, c, x, y):
    m = re.match(r'^<(.*) as Iterator>', c)
    if m:
        # try the element type's own Ord impl (crate types have MIR for it)
        mt = re.search(r'(?:Iter<\'_, |IntoIter<|Copied<[^>]*Iter<\'_, )([\w:]+)>', m.group(1))
        if mt:
            f = e.resolve('<%s as Ord>::cmp' % mt.group(1))
            if f is not None:
                xr = x if isinstance(x, Ref) else Ref([x], 0); yr = y if isinstance(y, Ref) else Ref([y], 0)
                return ordv(e.call_mir(f, [xr if not isinstance(deref(x), Ref) else x, yr]))
    x0 = deref(x)
    if isinstance(x0, Struct) and len(x0.f) == 1:      # newtype such as Term / Var: derived Ord compares the field
        return generic_cmp(e, c, x0.f[0], deref(y).f[0])
    return generic_cmp(e, c, x, y)

@model('Iterator::min', '*::min')
def _it_min(e, c, a):
    if len(a) == 2 and not isinstance(a[0], It) and not isinstance(deref(a[0]), (It, VecObj, Struct)) or (len(a) == 2 and (isinstance(a[0], int) or is_sym(a[0]))):
        return M['Ord::min'](e, c, a)
    it = as_it(e, c, a[0]); best = it.nxt(e)
    if best is None: return NONE()
    while True:
        v = it.nxt(e)
        if v is None: return Some(best)
        if typed_cmp(e, c, v, best) < 0: best = v          # first minimum kept
@model('Iterator::max', '*::max')
def _it_max(e, c, a):
    if len(a) == 2 and (isinstance(a[0], int) or is_sym(a[0])):
        return M['Ord::max'](e, c, a)
    it = as_it(e, c, a[0]); best = it.nxt(e)
    if best is None: return NONE()
    while True:
        v = it.nxt(e)
        if v is None: return Some(best)
        if typed_cmp(e, c, v, best) >= 0: best = v         # last maximum kept
@model('*::min_by_key')
def _min_by_key(e, c, a):
    it, f = as_it(e, c, a[0]), a[1]; best = it.nxt(e)
    if best is None: return NONE()
    bk = e.call_value(f, [Ref([best], 0)])
    while True:
        v = it.nxt(e)
        if v is None: return Some(best)
        k = e.call_value(f, [Ref([v], 0)])
        if generic_cmp(e, c, k, bk) < 0: best, bk = v, k
@model('*::max_by_key')
def _max_by_key(e, c, a):
    it, f = as_it(e, c, a[0]), a[1]; best = it.nxt(e)
    if best is None: return NONE()
    bk = e.call_value(f, [Ref([best], 0)])
    while True:
        v = it.nxt(e)
        if v is None: return Some(best)
        k = e.call_value(f, [Ref([v], 0)])
        if generic_cmp(e, c, k, bk) >= 0: best, bk = v, k
@model('*::unzip')
def _unzip(e, c, a):
    it = as_it(e, c, a[0]); xs = []; ys = []
    while True:
        v = it.nxt(e)
        if v is None: return Struct([VecObj(xs), VecObj(ys)])
        xs.append(v.f[0]); ys.append(v.f[1])
@model('*::partition')
def _partition(e, c, a):
    it, f = as_it(e, c, a[0]), a[1]; xs = []; ys = []
    while True:
        v = it.nxt(e)
        if v is None: return Struct([VecObj(xs), VecObj(ys)])
        (xs if e.branch(e.call_value(f, [Ref([v], 0)])) else ys).append(v)
@model('*::find_map')
def _find_map(e, c, a):
    it, f = as_it(e, c, a[0]), a[1]
    while True:
        v = it.nxt(e)
        if v is None: return NONE()
        r = e.call_value(f, [v])
        if r.v == 'Some': return r
@model('*::rposition')
def _rposition(e, c, a):
    it, f = as_it(e, c, a[0]), a[1]; vals = []
    while True:
        v = it.nxt(e)
        if v is None: break
        vals.append(v)
    for i in range(len(vals) - 1, -1, -1):
        if e.branch(e.call_value(f, [vals[i]])): return Some(i)
    return NONE()
@model('*::reduce')
def _reduce(e, c, a):
    it, f = as_it(e, c, a[0]), a[1]; acc = it.nxt(e)
    if acc is None: return NONE()
    while True:
        v = it.nxt(e)
        if v is None: return Some(acc)
        acc = e.call_value(f, [acc, v])
@model('*::rfold')
def _rfold(e, c, a):
    it, acc, f = as_it(e, c, a[0]), a[1], a[2]
    while True:
        v = it.back(e)
        if v is None: return acc
        acc = e.call_value(f, [acc, v])
@model('*::is_sorted')
def _is_sorted(e, c, a):
    xs = as_slice(e, a[0]).aslist()
    return all(generic_cmp(e, c, x, y) <= 0 for x, y in zip(xs, xs[1:]))
@model('iter::once')
def _once(e, c, a): return it_list([a[0]])
@model('iter::empty')
def _empty(e, c, a): return it_list([])
@model('iter::repeat')
def _repeat(e, c, a): return It(lambda e_: clone_val(e, a[0]))
@model('*::eq_by', 'Iterator::eq')
def _it_eq(e, c, a):
    x = as_it(e, c, a[0]); y = _into_iter(e, c, [a[1]])
    while True:
        p, q = x.nxt(e), y.nxt(e)
        if p is None or q is None: return p is None and q is None
        if not e.branch(e.eq_vals(p, q)): return False

# ---------------------------------------------------------------- Vec / slice
@model('Vec::insert')
def _vec_insert(e, c, a):
    v = unguard(a[0]); i = e.concretize(a[1])
    if i > len(v.items): raise RustPanic('insertion index out of bounds')
    v.items.insert(i, a[2]); return UNIT
@model('Vec::remove')
def _vec_remove(e, c, a):
    v = unguard(a[0]); i = e.concretize(a[1])
    if i >= len(v.items): raise RustPanic('removal index out of bounds')
    return v.items.pop(i)
@model('Vec::swap_remove')
def _vec_swap_remove(e, c, a):
    v = unguard(a[0]); i = e.concretize(a[1])
    if i >= len(v.items): raise RustPanic('swap_remove index out of bounds')
    x = v.items[i]; v.items[i] = v.items[-1]; v.items.pop(); return x
@model('Vec::truncate')
def _vec_truncate(e, c, a):
    v = unguard(a[0]); n = e.concretize(a[1]); del v.items[n:]; return UNIT
@model('Vec::extend', 'Extend::extend', 'Vec::extend_from_slice')
def _extend(e, c, a):
    tgt = unguard(a[0]); it = a[1] if isinstance(a[1], It) else _into_iter(e, c, [a[1]])
    while True:
        v = it.nxt(e)
        if v is None: return UNIT
        if isinstance(tgt, VecObj): tgt.items.append(clone_val(e, d1(v)) if 'extend_from_slice' in c or isinstance(v, Ref) and '&' in c else v)
        elif isinstance(tgt, SetObj):
            if not any(e.branch(e.eq_vals(x, v)) for x in tgt.e): tgt.e.append(v)
        elif isinstance(tgt, MapObj): _map_insert(e, c, [tgt, v.f[0], v.f[1]])
        else: raise Unsupported('extend on %r' % (tgt,))
@model('Vec::drain')
def _drain(e, c, a):
    v = unguard(a[0]); r = a[1]
    lo, hi = (e.concretize(r.f[0]), e.concretize(r.f[1])) if len(r.f) == 2 else (0, len(v.items))
    out = v.items[lo:hi]; del v.items[lo:hi]; return it_list(out)
@model('Vec::dedup')
def _dedup(e, c, a):
    v = unguard(a[0]); out = []
    for x in v.items:
        if out and e.branch(e.eq_vals(out[-1], x)): continue
        out.append(x)
    v.items[:] = out; return UNIT
@model('Vec::contains')
def _vec_contains(e, c, a): return M['slice::contains'](e, c, a)
@model('Vec::first', 'slice::first')
def _first(e, c, a):
    s = as_slice(e, a[0]); return Some(Ref(s.items, s.start)) if s.n else NONE()
@model('Vec::first_mut', 'slice::first_mut', 'Vec::last_mut', 'slice::last_mut')
def _first_mut(e, c, a):
    s = as_slice(e, a[0])
    if not s.n: return NONE()
    return Some(Ref(s.items, s.start if 'first' in c else s.start + s.n - 1))
@model('slice::swap', 'Vec::swap')
def _swap(e, c, a):
    s = as_slice(e, a[0]); i, j = e.concretize(a[1]), e.concretize(a[2])
    if i >= s.n or j >= s.n: raise RustPanic('swap index out of bounds')
    s.items[s.start + i], s.items[s.start + j] = s.items[s.start + j], s.items[s.start + i]; return UNIT
@model('slice::reverse', 'Vec::reverse')
def _reverse(e, c, a):
    s = as_slice(e, a[0]); s.items[s.start:s.start + s.n] = s.aslist()[::-1]; return UNIT
@model('slice::split_at')
def _split_at(e, c, a):
    s = as_slice(e, a[0]); k = e.concretize(a[1])
    if k > s.n: raise RustPanic('split_at out of bounds')
    return Struct([SliceRef(s.items, s.start, k), SliceRef(s.items, s.start + k, s.n - k)])
@model('slice::split_first')
def _split_first(e, c, a):
    s = as_slice(e, a[0])
    return Some(Struct([Ref(s.items, s.start), SliceRef(s.items, s.start + 1, s.n - 1)])) if s.n else NONE()
@model('slice::split_last')
def _split_last(e, c, a):
    s = as_slice(e, a[0])
    return Some(Struct([Ref(s.items, s.start + s.n - 1), SliceRef(s.items, s.start, s.n - 1)])) if s.n else NONE()
@model('slice::windows')
def _windows(e, c, a):
    s = as_slice(e, a[0]); k = e.concretize(a[1])
    return it_list([SliceRef(s.items, s.start + i, k) for i in range(0, s.n - k + 1)])
@model('slice::chunks')
def _chunks(e, c, a):
    s = as_slice(e, a[0]); k = e.concretize(a[1])
    return it_list([SliceRef(s.items, s.start + i, min(k, s.n - i)) for i in range(0, s.n, k)])
@model('slice::starts_with')
def _starts_with(e, c, a):
    s, t = as_slice(e, a[0]), as_slice(e, a[1])
    if t.n > s.n: return False
    return e.and_all([e.eq_vals(x, y) for x, y in zip(s.aslist(), t.aslist())])
@model('slice::ends_with')
def _ends_with(e, c, a):
    s, t = as_slice(e, a[0]), as_slice(e, a[1])
    if t.n > s.n: return False
    return e.and_all([e.eq_vals(x, y) for x, y in zip(s.aslist()[s.n - t.n:], t.aslist())])
@model('slice::fill')
def _fill(e, c, a):
    s = as_slice(e, a[0])
    for i in range(s.n): s.items[s.start + i] = clone_val(e, a[1])
    return UNIT
@model('slice::copy_from_slice', 'slice::clone_from_slice')
def _copy_from_slice(e, c, a):
    s, t = as_slice(e, a[0]), as_slice(e, a[1])
    if s.n != t.n: raise RustPanic('source slice length does not match destination')
    for i in range(s.n): s.items[s.start + i] = clone_val(e, t.items[t.start + i])
    return UNIT
@model('slice::sort_by_key', 'slice::sort_unstable_by_key', 'slice::sort_by_cached_key')
def _sort_by_key(e, c, a):
    s = as_slice(e, a[0]); xs = s.aslist()
    keyed = [(e.call_value(a[1], [Ref([x], 0)]), x) for x in xs]
    keyed.sort(key=functools.cmp_to_key(lambda p, q: generic_cmp(e, c, p[0], q[0])))
    s.items[s.start:s.start + s.n] = [x for _, x in keyed]; return UNIT
@model('slice::binary_search')
def _binary_search(e, c, a):
    s = as_slice(e, a[0]); xs = s.aslist()
    for i, x in enumerate(xs):
        r = generic_cmp(e, c, x, a[1])
        if r == 0: return Ok(i)
        if r > 0: return Err(i)
    return Err(len(xs))
@model('slice::iter_rev', 'slice::rev')
def _slice_rev(e, c, a): return M['*::rev'](e, c, a)
@model('slice::get_mut', 'Vec::get_mut')
def _get_mut(e, c, a): return M['slice::get'](e, c, a)
@model('Vec::from', '<Vec as From>::from')
def _vec_from(e, c, a): return M['slice::to_vec'](e, c, a)
@model('Vec::resize')
def _resize(e, c, a):
    v = unguard(a[0]); n = e.concretize(a[1])
    if n < len(v.items): del v.items[n:]
    while len(v.items) < n: v.items.append(clone_val(e, a[2]))
    return UNIT
@model('Vec::capacity')
def _capacity(e, c, a): return len(unguard(a[0]).items)
@model('Vec::split_off')
def _split_off(e, c, a):
    v = unguard(a[0]); k = e.concretize(a[1])
    if k > len(v.items): raise RustPanic('split_off out of bounds')
    out = VecObj(v.items[k:]); del v.items[k:]; return out
@model('Vec::iter', 'Vec::iter_mut')
def _vec_iter(e, c, a): return M['slice::iter'](e, c, a)
@model('Vec::into_boxed_slice')
def _boxed(e, c, a): return a[0]

# ---------------------------------------------------------------- HashMap / HashSet
@model('HashMap::get_mut')
def _map_get_mut(e, c, a): return M['HashMap::get'](e, c, a)
@model('HashMap::remove')
def _map_remove(e, c, a):
    m = unguard(a[0]); ent = map_find(e, m, deref(a[1]))
    if ent is None: return NONE()
    m.e.remove(ent); return Some(ent[1][0])
@model('HashMap::is_empty')
def _map_is_empty(e, c, a): return len(unguard(a[0]).e) == 0
@model('HashMap::clear', 'HashSet::clear')
def _map_clear(e, c, a): unguard(a[0]).e[:] = []; return UNIT
@model('HashMap::keys')
def _keys(e, c, a):
    m = unguard(a[0]); return it_list([Ref(ent, 0) for ent in hash_order(e, m.e)])
@model('HashMap::values', 'HashMap::values_mut')
def _values(e, c, a):
    m = unguard(a[0]); return it_list([Ref(ent[1], 0) for ent in hash_order(e, m.e)])
@model('HashMap::iter_mut')
def _map_iter_mut(e, c, a): return M['HashMap::iter'](e, c, a)
@model('HashMap::retain')
def _map_retain(e, c, a):
    m = unguard(a[0])
    m.e[:] = [ent for ent in list(m.e) if e.branch(e.call_value(a[1], [Ref(ent, 0), Ref(ent[1], 0)]))]; return UNIT
class EntryObj:
    def __init__(self, m, key, ent): self.m = m; self.key = key; self.ent = ent
@model('HashMap::entry')
def _entry(e, c, a):
    m = unguard(a[0]); return EntryObj(m, a[1], map_find(e, m, a[1]))
def entry_or(e, en, mk):
    if en.ent is None:
        en.ent = [en.key, [mk()]]; en.m.e.append(en.ent)
    return Ref(en.ent[1], 0)
@model('Entry::or_insert')
def _or_insert(e, c, a): return entry_or(e, a[0], lambda: a[1])
@model('Entry::or_insert_with')
def _or_insert_with(e, c, a): return entry_or(e, a[0], lambda: e.call_value(a[1], []))
@model('Entry::or_default')
def _or_default(e, c, a):
    def mk():
        m = re.search(r"Entry<'_, .*, (.*)>>?::or_default", c)
        t = m.group(1).strip() if m else ''
        if t.startswith('Vec'): return VecObj()
        if t.startswith('HashSet'): return SetObj()
        if t.startswith('HashMap'): return MapObj()
        if t in INT_TYPES: return 0
        if t == 'bool': return False
        raise Unsupported('or_default for ' + c)
    return entry_or(e, a[0], mk)
@model('Entry::and_modify')
def _and_modify(e, c, a):
    if a[0].ent is not None: e.call_value(a[1], [Ref(a[0].ent[1], 0)])
    return a[0]
@model('HashSet::reserve', 'HashMap::reserve', 'HashSet::shrink_to_fit', 'HashMap::shrink_to_fit', 'BTreeSet::reserve', 'HashSet::shrink_to', 'HashMap::shrink_to')
def _set_reserve(e, c, a): return UNIT
@model('HashSet::remove')
def _set_remove(e, c, a):
    s = unguard(a[0]); k = deref(a[1])
    for i, x in enumerate(s.e):
        if e.branch(e.eq_vals(x, k)): del s.e[i]; return True
    return False
def set_has(e, s, k): return any(e.branch(e.eq_vals(x, k)) for x in s.e)
@model('HashSet::intersection')
def _intersection(e, c, a):
    s1, s2 = unguard(a[0]), unguard(a[1])
    return it_list(hash_order(e, [Ref(s1.e, i) for i, x in enumerate(s1.e) if set_has(e, s2, x)]))
@model('HashSet::difference')
def _difference(e, c, a):
    s1, s2 = unguard(a[0]), unguard(a[1])
    return it_list(hash_order(e, [Ref(s1.e, i) for i, x in enumerate(s1.e) if not set_has(e, s2, x)]))
@model('HashSet::symmetric_difference')
def _symdiff(e, c, a):
    s1, s2 = unguard(a[0]), unguard(a[1])
    return it_list(hash_order(e, [Ref(s1.e, i) for i, x in enumerate(s1.e) if not set_has(e, s2, x)] + [Ref(s2.e, i) for i, x in enumerate(s2.e) if not set_has(e, s1, x)]))
@model('HashSet::is_subset')
def _is_subset(e, c, a):
    s1, s2 = unguard(a[0]), unguard(a[1]); return all(set_has(e, s2, x) for x in s1.e)
@model('HashSet::is_superset')
def _is_superset(e, c, a):
    s1, s2 = unguard(a[0]), unguard(a[1]); return all(set_has(e, s1, x) for x in s2.e)
@model('HashSet::is_disjoint')
def _is_disjoint(e, c, a):
    s1, s2 = unguard(a[0]), unguard(a[1]); return not any(set_has(e, s2, x) for x in s1.e)
@model('HashSet::get')
def _set_get(e, c, a):
    s = unguard(a[0]); k = deref(a[1])
    for i, x in enumerate(s.e):
        if e.branch(e.eq_vals(x, k)): return Some(Ref(s.e, i))
    return NONE()
@model('HashSet::retain')
def _set_retain(e, c, a):
    s = unguard(a[0]); s.e[:] = [x for i, x in enumerate(list(s.e)) if e.branch(e.call_value(a[1], [Ref([x], 0)]))]; return UNIT
@model('<HashSet as Default>::default', 'HashSet::default')
def _set_default(e, c, a): return SetObj()
@model('<HashMap as Default>::default', 'HashMap::default')
def _map_default(e, c, a): return MapObj()
@model('<Vec as Default>::default', 'Vec::default')
def _vec_default(e, c, a): return VecObj()
@model('Default::default')
def _default(e, c, a):
    m = re.match(r'^<(.*) as (?:std::default::)?Default>::default$', c)
    t = strip_generics(m.group(1)).split('::')[-1] if m else ''
    if t == 'Vec': return VecObj()
    if t == 'HashSet': return SetObj()
    if t == 'HashMap': return MapObj()
    if t in INT_TYPES: return 0
    if t == 'bool': return False
    if t == 'String': return StrBuf('')
    if t == 'Option': return NONE()
    raise Unsupported('Default for ' + c)

# ---------------------------------------------------------------- Option / Result / bool / Ordering
def isopt(x): return isinstance(x, Enum) and x.v in ('Some', 'None', 'Ok', 'Err')
@model('Option::map_or', 'Result::map_or')
def _map_or(e, c, a): return e.call_value(a[2], [a[0].f[0]]) if a[0].v in ('Some', 'Ok') else a[1]
@model('Option::map_or_else', 'Result::map_or_else')
def _map_or_else(e, c, a):
    if a[0].v in ('Some', 'Ok'): return e.call_value(a[2], [a[0].f[0]])
    return e.call_value(a[1], [a[0].f[0]] if a[0].v == 'Err' else [])
@model('Option::unwrap_or_else', 'Result::unwrap_or_else')
def _unwrap_or_else(e, c, a):
    if a[0].v in ('Some', 'Ok'): return a[0].f[0]
    return e.call_value(a[1], [a[0].f[0]] if a[0].v == 'Err' else [])
@model('Option::unwrap_or_default', 'Result::unwrap_or_default')
def _unwrap_or_default(e, c, a):
    if a[0].v in ('Some', 'Ok'): return a[0].f[0]
    m = re.search(r'(?:Option|Result)::<(.*?)(?:, .*)?>::unwrap_or_default', c)
    t = strip_generics(m.group(1)).split('::')[-1] if m else ''
    if t in INT_TYPES: return 0
    if t == 'bool': return False
    if t == 'Vec': return VecObj()
    if m:
        f = e.resolve('<%s as Default>::default' % strip_generics(m.group(1)))       # a type of the crate: its own Default impl
        if f is not None: return e.call_mir(f, [])
    raise Unsupported('unwrap_or_default ' + c)
@model('Option::filter')
def _opt_filter(e, c, a):
    if a[0].v == 'Some' and e.branch(e.call_value(a[1], [Ref(a[0].f, 0)])): return a[0]
    return NONE()
@model('Option::or')
def _opt_or(e, c, a): return a[0] if a[0].v == 'Some' else a[1]
@model('Option::or_else')
def _opt_or_else(e, c, a): return a[0] if a[0].v == 'Some' else e.call_value(a[1], [])
@model('Option::and')
def _opt_and(e, c, a): return a[1] if a[0].v == 'Some' else NONE()
@model('Option::xor')
def _opt_xor(e, c, a):
    if (a[0].v == 'Some') != (a[1].v == 'Some'): return a[0] if a[0].v == 'Some' else a[1]
    return NONE()
@model('Option::zip')
def _opt_zip(e, c, a): return Some(Struct([a[0].f[0], a[1].f[0]])) if a[0].v == 'Some' and a[1].v == 'Some' else NONE()
@model('Option::ok_or_else')
def _ok_or_else(e, c, a): return Ok(a[0].f[0]) if a[0].v == 'Some' else Err(e.call_value(a[1], []))
@model('Option::insert', 'Option::replace')
def _opt_insert(e, c, a):
    r = a[0]; old = r.get(); r.set(Some(a[1]))
    return old if 'replace' in c else Ref(r.get().f, 0)
@model('Option::get_or_insert_with')
def _get_or_insert_with(e, c, a):
    r = a[0]
    if r.get().v == 'None': r.set(Some(e.call_value(a[1], [])))
    return Ref(r.get().f, 0)
@model('Option::get_or_insert')
def _get_or_insert(e, c, a):
    r = a[0]
    if r.get().v == 'None': r.set(Some(a[1]))
    return Ref(r.get().f, 0)
@model('Option::is_some_and')
def _is_some_and(e, c, a): return a[0].v == 'Some' and e.branch(e.call_value(a[1], [a[0].f[0]]))
@model('Option::is_none_or')
def _is_none_or(e, c, a): return a[0].v == 'None' or e.branch(e.call_value(a[1], [a[0].f[0]]))
@model('Option::iter', 'Option::into_iter')
def _opt_iter(e, c, a):
    o = deref(a[0]); return it_list([Ref(o.f, 0)] if o.v == 'Some' and isinstance(a[0], Ref) else list(o.f))
@model('Option::flatten')
def _opt_flatten(e, c, a): return a[0].f[0] if a[0].v == 'Some' else a[0]
@model('Option::as_deref')
def _as_deref(e, c, a):
    o = deref(a[0])
    if o.v != 'Some': return NONE()
    x = o.f[0]
    if isinstance(x, StrBuf): return Some(x.s)
    if isinstance(x, VecObj): return Some(SliceRef(x.items, 0, len(x.items)))
    return Some(Ref(o.f, 0))
@model('Option::unwrap_unchecked', 'Result::unwrap_unchecked')
def _unwrap_unchecked(e, c, a): return a[0].f[0]
@model('Option::unzip')
def _opt_unzip(e, c, a): return Struct([Some(a[0].f[0].f[0]), Some(a[0].f[0].f[1])]) if a[0].v == 'Some' else Struct([NONE(), NONE()])
@model('Result::and_then')
def _res_and_then(e, c, a): return e.call_value(a[1], [a[0].f[0]]) if a[0].v == 'Ok' else a[0]
@model('Result::or_else')
def _res_or_else(e, c, a): return e.call_value(a[1], [a[0].f[0]]) if a[0].v == 'Err' else a[0]
@model('Result::err')
def _res_err(e, c, a): return Some(a[0].f[0]) if a[0].v == 'Err' else NONE()
@model('Result::unwrap_err', 'Result::expect_err')
def _unwrap_err(e, c, a):
    if a[0].v == 'Err': return a[0].f[0]
    raise RustPanic('unwrap_err on Ok')
@model('Result::as_ref')
def _res_as_ref(e, c, a):
    o = deref(a[0]); return Enum(o.v, [Ref(o.f, 0)], 'Result')
@model('Ordering::then')
def _ord_then(e, c, a): return a[0] if a[0].v != 'Equal' else a[1]
@model('Ordering::then_with')
def _ord_then_with(e, c, a): return a[0] if a[0].v != 'Equal' else e.call_value(a[1], [])
@model('Ordering::reverse')
def _ord_reverse(e, c, a): return mk_ord(-ordv(a[0]))
@model('Ordering::is_eq')
def _is_eq(e, c, a): return a[0].v == 'Equal'
@model('Ordering::is_ne')
def _is_ne(e, c, a): return a[0].v != 'Equal'
@model('Ordering::is_lt')
def _is_lt(e, c, a): return a[0].v == 'Less'
@model('Ordering::is_gt')
def _is_gt(e, c, a): return a[0].v == 'Greater'
@model('Ordering::is_le')
def _is_le(e, c, a): return a[0].v != 'Greater'
@model('Ordering::is_ge')
def _is_ge(e, c, a): return a[0].v != 'Less'
@model('cmp::max_by', 'cmp::min_by')
def _cmp_by(e, c, a):
    o = e.call_value(a[2], [Ref([a[0]], 0), Ref([a[1]], 0)])
    if 'max_by' in c: return a[0] if o.v == 'Greater' else a[1]
    return a[1] if o.v == 'Greater' else a[0]
@model('Ord::clamp')
def _clamp(e, c, a):
    x, lo, hi = a; ty = int_ty(c)
    if e.branch(e.binop('Lt', x, lo, ty)): return lo
    if e.branch(e.binop('Gt', x, hi, ty)): return hi
    return x

# ---------------------------------------------------------------- integer helpers
def ity(c):
    m = re.search(r'<impl (\w+)>', c)
    return m.group(1) if m else 'usize'
def wrap_binop(op):
    def f(e, c, a):
        return e.binop(op, a[0], a[1], ity(c))
    return f
for nm, op in (('wrapping_add', 'Add'), ('wrapping_sub', 'Sub'), ('wrapping_mul', 'Mul'), ('unchecked_add', 'Add'), ('unchecked_sub', 'Sub')):
    fn = wrap_binop(op); fn.model_name = 'num::' + nm; M['num::' + nm] = fn
def checked(op):
    def f(e, c, a):
        r = e.binop(op + 'WithOverflow', a[0], a[1], ity(c))
        return NONE() if e.branch(r.f[1]) else Some(r.f[0])
    return f
for nm, op in (('checked_add', 'Add'), ('checked_sub', 'Sub'), ('checked_mul', 'Mul')):
    fn = checked(op); fn.model_name = 'num::' + nm; M['num::' + nm] = fn
def overflowing(op):
    def f(e, c, a):
        r = e.binop(op + 'WithOverflow', a[0], a[1], ity(c)); return Struct([r.f[0], r.f[1]])
    return f
for nm, op in (('overflowing_add', 'Add'), ('overflowing_sub', 'Sub'), ('overflowing_mul', 'Mul')):
    fn = overflowing(op); fn.model_name = 'num::' + nm; M['num::' + nm] = fn
@model('num::saturating_sub')
def _sat_sub(e, c, a):
    ty = ity(c)
    if e.branch(e.binop('Lt', a[0], a[1], ty)): return 0
    return e.binop('Sub', a[0], a[1], ty)
@model('num::saturating_add')
def _sat_add(e, c, a):
    ty = ity(c); r = e.binop('AddWithOverflow', a[0], a[1], ty)
    if e.branch(r.f[1]): return (1 << INT_TYPES[ty][0]) - 1
    return r.f[0]
@model('num::abs_diff')
def _abs_diff(e, c, a):
    ty = ity(c)
    if e.branch(e.binop('Lt', a[0], a[1], ty)): return e.binop('Sub', a[1], a[0], ty)
    return e.binop('Sub', a[0], a[1], ty)
@model('num::checked_div')
def _checked_div(e, c, a):
    if e.branch(e.binop('Eq', a[1], 0, ity(c))): return NONE()
    return Some(e.binop('Div', a[0], a[1], ity(c)))
@model('num::checked_rem')
def _checked_rem(e, c, a):
    if e.branch(e.binop('Eq', a[1], 0, ity(c))): return NONE()
    return Some(e.binop('Rem', a[0], a[1], ity(c)))
@model('num::is_power_of_two')
def _is_pow2(e, c, a):
    x = a[0]
    if is_sym(x): return z3.And(x != 0, (x & (x - 1)) == 0)
    return x != 0 and (x & (x - 1)) == 0
@model('num::count_ones')
def _count_ones(e, c, a):
    x = a[0]
    if is_sym(x): return z3.Sum([z3.ZeroExt(31, z3.Extract(i, i, x)) for i in range(x.size())])
    return bin(x).count('1')
@model('num::trailing_zeros')
def _tz(e, c, a):
    x = e.concretize(a[0]); w = INT_TYPES[ity(c)][0]
    if x == 0: return w
    return (x & -x).bit_length() - 1
@model('num::leading_zeros')
def _lz(e, c, a):
    x = e.concretize(a[0]); w = INT_TYPES[ity(c)][0]
    return w - x.bit_length()
@model('num::checked_pow')
def _checked_pow(e, c, a):
    b, ex = a; ex = e.concretize(ex); r = 1
    for _ in range(ex):
        p = e.binop('MulWithOverflow', r, b, ity(c))
        if e.branch(p.f[1]): return NONE()
        r = p.f[0]
    return Some(r)
@model('num::div_ceil')
def _div_ceil(e, c, a):
    ty = ity(c); q = e.binop('Div', a[0], a[1], ty); r = e.binop('Rem', a[0], a[1], ty)
    return e.binop('Add', q, 1, ty) if e.branch(e.binop('Ne', r, 0, ty)) else q
@model('bool::not', 'Not::not')
def _bnot(e, c, a): return e.not_(a[0]) if isinstance(a[0], bool) or (is_sym(a[0]) and z3.is_bool(a[0])) else (~a[0] if is_sym(a[0]) else (~a[0]) & ((1 << 64) - 1))
@model('mem::size_of')
def _size_of(e, c, a): return 8

# ---------------------------------------------------------------- strings (concrete content)
def pystr(x):
    x = unguard(x)
    if isinstance(x, StrBuf): x = x.s
    if isinstance(x, int): return chr(x)
    if hasattr(x, 'bytes') and hasattr(x, 'start') and not any(is_sym(b) for b in x.bytes()): return bytes(x.bytes()).decode()      # a slice of a concrete text
    if not isinstance(x, str): raise Unsupported('string operation on non-concrete string %r' % (x,))
    return x
@model('str::replace', 'String::replace')
def _s_replace(e, c, a): return StrBuf(pystr(a[0]).replace(pystr(a[1]), pystr(a[2])))
@model('str::replacen')
def _s_replacen(e, c, a): return StrBuf(pystr(a[0]).replace(pystr(a[1]), pystr(a[2]), e.concretize(a[3])))
@model('str::contains', 'String::contains')
def _s_contains(e, c, a):
    if callable(unguard(a[1])) or isinstance(unguard(a[1]), (Closure, FnRef)): return any(e.branch(e.call_value(a[1], [ord(ch)])) for ch in pystr(a[0]))
    return pystr(a[1]) in pystr(a[0])
@model('str::find')
def _s_find(e, c, a):
    i = pystr(a[0]).find(pystr(a[1])); return Some(len(pystr(a[0])[:i].encode())) if i >= 0 else NONE()
@model('str::ends_with')
def _s_ends_with(e, c, a): return pystr(a[0]).endswith(pystr(a[1]))
@model('str::trim', 'str::trim_end', 'str::trim_matches')
def _s_trim(e, c, a):
    s_ = pystr(a[0])
    return s_.strip() if c.endswith('trim') or '::trim::' in c else s_.rstrip() if 'trim_end' in c else s_.strip(pystr(a[1]))
@model('str::to_lowercase', 'str::to_ascii_lowercase')
def _s_lower(e, c, a): return StrBuf(pystr(a[0]).lower())
@model('str::to_uppercase', 'str::to_ascii_uppercase')
def _s_upper(e, c, a): return StrBuf(pystr(a[0]).upper())
@model('str::split')
def _s_split(e, c, a): return it_list(pystr(a[0]).split(pystr(a[1])))
@model('str::split_whitespace', 'str::split_ascii_whitespace')
def _s_split_ws(e, c, a): return it_list(pystr(a[0]).split())
@model('str::lines')
def _s_lines(e, c, a): return it_list(pystr(a[0]).splitlines())
@model('str::chars')
def _s_chars(e, c, a):
    x = unguard(a[0])
    if isinstance(x, StrBuf): x = x.s
    if hasattr(x, 'bytes') and hasattr(x, 'start') and any(is_sym(b) for b in x.bytes()):
        # a text with symbolic bytes (ASCII only: one byte per char); a char is a 32-bit value
        out = []
        for b in x.bytes():
            if is_sym(b): e.assume(z3.ULT(b, 0x80)); out.append(z3.ZeroExt(24, b))
            elif b >= 0x80: raise Unsupported('chars() of a symbolic text with non-ASCII bytes')
            else: out.append(b)
        return it_list(out)
    return it_list([ord(ch) for ch in pystr(a[0])])
@model('str::bytes')
def _s_bytes(e, c, a): return it_list(list(pystr(a[0]).encode()))
@model('str::char_indices')
def _s_char_indices(e, c, a):
    s_ = pystr(a[0]); out = []; off = 0
    for ch in s_:
        out.append(Struct([off, ord(ch)])); off += len(ch.encode())
    return it_list(out)
@model('String::push_str')
def _push_str(e, c, a):
    b = unguard(a[0]); b.s = pystr(b) + pystr(a[1]); return UNIT
@model('String::push')
def _push_ch(e, c, a):
    b = unguard(a[0]); b.s = pystr(b) + chr(e.concretize(a[1])); return UNIT
@model('String::is_empty')
def _string_is_empty(e, c, a): return len(pystr(a[0])) == 0
@model('String::clear')
def _string_clear(e, c, a): unguard(a[0]).s = ''; return UNIT
@model('String::with_capacity')
def _string_cap(e, c, a): return StrBuf('')
@model('String::into_bytes')
def _into_bytes(e, c, a): return VecObj(list(pystr(a[0]).encode()))
@model('char::is_alphanumeric', 'char::is_ascii_alphanumeric', 'impl char::is_alphanumeric', 'impl char::is_ascii_alphanumeric')
def _c_alnum(e, c, a): return chr(e.concretize(a[0] if not isinstance(a[0], Ref) else a[0].get())).isalnum()
@model('char::is_ascii_digit', 'char::is_numeric', 'impl char::is_ascii_digit', 'impl char::is_numeric')
def _c_digit(e, c, a): return chr(e.concretize(a[0] if not isinstance(a[0], Ref) else a[0].get())).isdigit()
@model('char::is_whitespace', 'char::is_ascii_whitespace', 'impl char::is_whitespace', 'impl char::is_ascii_whitespace')
def _c_space(e, c, a): return chr(e.concretize(a[0] if not isinstance(a[0], Ref) else a[0].get())).isspace()
@model('slice::chunk_by')
def _chunk_by(e, c, a):
    s_ = as_slice(e, a[0]); groups = []; start = 0
    for i in range(1, s_.n + 1):
        if i == s_.n or not e.branch(e.call_value(a[1], [Ref(s_.items, s_.start + i - 1), Ref(s_.items, s_.start + i)])):
            groups.append(SliceRef(s_.items, s_.start + start, i - start)); start = i
    return it_list(groups if s_.n else [])

# ---------------------------------------------------------------- misc
@model('RefCell::into_inner', 'RefCell::get_mut', 'Cell::get')
def _into_inner(e, c, a):
    v = a[0]
    if isinstance(v, Ref):
        cell = v.get()
        return Ref(cell.c, 0) if 'get_mut' in c else cell.c[0]
    return v.c[0]
@model('RefCell::replace', 'Cell::set', 'Cell::replace')
def _cell_replace(e, c, a):
    cell = a[0].get() if isinstance(a[0], Ref) else a[0]
    old = cell.c[0]; cell.c[0] = a[1]; return old if 'replace' in c else UNIT
@model('Cell::new')
def _cell_new(e, c, a): return CellObj(a[0], 'refcell')
@model('panic', 'panic_fmt', 'panic_explicit', 'panic_display', 'unreachable_display', 'expect_failed', 'unwrap_failed', 'assert_failed', 'panic_nounwind', 'panic_bounds_check',
       'panic_const::panic_const_add_overflow', 'panic_const::panic_const_sub_overflow', 'panic_const::panic_const_mul_overflow', 'panic_const::panic_const_div_by_zero',
       'panic_const::panic_const_rem_by_zero', 'panic_const::panic_const_shl_overflow', 'slice_index_order_fail', 'slice_end_index_len_fail', 'slice_start_index_len_fail', 'str::slice_error_fail')
def _panic0(e, c, a): raise RustPanic('explicit panic: ' + strip_generics(c))
@model('hint::unreachable_unchecked', 'panicking::panic', 'panicking::panic_fmt', 'panicking::unreachable_display', 'option::expect_failed', 'result::unwrap_failed',
       'panicking::panic_explicit', 'panicking::assert_failed', 'panicking::panic_display', 'rt::begin_panic', 'panicking::panic_nounwind', 'rt::panic_fmt', 'rt::panic_display')
def _panic(e, c, a): raise RustPanic('explicit panic: ' + strip_generics(c))
@model('hint::black_box', 'convert::identity')
def _identity(e, c, a): return a[0]

# ---------------------------------------------------------------- BTreeSet: a SetObj whose element list is kept in ascending order (keys must be concrete)
def _bt_sorted(e, refs_or_vals):
    ks = [ckey(x) for x in refs_or_vals]
    if any(k is None for k in ks): raise Unsupported('BTreeSet with symbolic keys')
    return [x for _, x in sorted(zip(ks, refs_or_vals), key=lambda p: p[0])]
@model('BTreeSet::new', '<BTreeSet as Default>::default', 'BTreeSet::default')
def _bt_new(e, c, a): return SetObj()
@model('BTreeSet::insert')
def _bt_insert(e, c, a):
    s = unguard(a[0]); r = M['HashSet::insert'](e, c, a)
    s.e[:] = _bt_sorted(e, s.e); return r
@model('BTreeSet::iter', 'BTreeSet::into_iter')
def _bt_iter(e, c, a):
    s = unguard(a[0]); return it_list([Ref(s.e, i) for i in range(len(s.e))])
@model('BTreeSet::first', 'BTreeSet::last')
def _bt_first(e, c, a):
    s = unguard(a[0])
    if not s.e: return NONE()
    return Some(Ref(s.e, 0 if c.endswith('first') else len(s.e) - 1))
@model('BTreeSet::append')
def _bt_append(e, c, a):
    s, o = unguard(a[0]), unguard(a[1])
    for x in list(o.e): M['HashSet::insert'](e, c, [s, x])
    o.e[:] = []; s.e[:] = _bt_sorted(e, s.e); return UNIT
@model('BTreeSet::extend')
def _bt_extend(e, c, a):
    s = unguard(a[0]); it = as_it(e, c, a[1])
    while True:
        v = it.nxt(e)
        if v is None: break
        M['HashSet::insert'](e, c, [s, deref(v) if c.count('&') else v])
    s.e[:] = _bt_sorted(e, s.e); return UNIT
def _bt_wrap(name):
    base = M[name]
    def f(e, c, a):
        r = base(e, c, a)
        if isinstance(r, It) and hasattr(r, 'vals'): return it_list(_bt_sorted(e, list(r.vals)))
        return r
    f.model_name = 'BTreeSet::' + name.split('::')[1]
    return f

def install(engine):
    for k in list(M):
        if k.startswith('HashSet::') and ('BTreeSet::' + k[9:]) not in M:
            M['BTreeSet::' + k[9:]] = _bt_wrap(k) if k[9:] in ('union', 'intersection', 'difference', 'symmetric_difference') else M[k]
    engine.models.update(M)
