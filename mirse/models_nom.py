"""nom 7 parser combinators over &str inputs of concrete length and symbolic content (C08).

A &str with symbolic content is a SymStr (shared byte list, start, length); bytes are python ints or z3 8-bit vectors.  Only the
combinators the crate uses are modelled, each by its documented contract; the grammar composition, the `.map` closures and the
dictionary handling are the crate's real MIR.  Inputs are restricted by the harness to ASCII (one byte per char)."""
import z3
from .engine import *
from .models import M, deref, d1, unguard, It

class SymStr:
    __slots__ = ('b', 'start', 'n')
    def __init__(self, b, start=0, n=None): self.b = b; self.start = start; self.n = len(b) - start if n is None else n
    def at(self, i): return self.b[self.start + i]
    def sub(self, i, n=None): return SymStr(self.b, self.start + i, self.n - i if n is None else n)
    def bytes(self): return self.b[self.start:self.start + self.n]
    def __repr__(self): return 'SymStr@%d+%d' % (self.start, self.n)

LOCAL = {}
def lmodel(*names):
    def deco(f):
        f.model_name = 'nom:' + names[0]
        for n in names: LOCAL[n] = f
        return f
    return deco

def as_sym(x):
    x = unguard(x)
    if isinstance(x, StrBuf): x = x.s
    if isinstance(x, str): return SymStr(list(x.encode()))
    return x

def byte_eq(a, b):
    if is_sym(a) or is_sym(b): return a == b
    return a == b

def str_eq(e, x, y):
    x, y = as_sym(x), as_sym(y)
    if x.n != y.n: return False
    return e.and_all([byte_eq(p, q) for p, q in zip(x.bytes(), y.bytes())])

def in_ranges(e, c, ranges):
    if not is_sym(c): return any(lo <= c <= hi for lo, hi in ranges)
    return z3.Or(*[z3.And(z3.UGE(c, lo), z3.ULE(c, hi)) for lo, hi in ranges])

ALNUM = [(48, 57), (65, 90), (97, 122)]
SPACE = [(32, 32), (9, 9), (10, 10), (13, 13)]

def nerr(inp, kind='Error'):
    return Err(Enum(kind, [Struct([inp, Enum('Tag', [], 'ErrorKind')])], 'Err'))

def run(e, p, inp):
    """apply a parser value (python model, fn item with MIR, closure with MIR) to an input"""
    return e.call_value(p, [inp])

@lmodel('complete::tag')
def _tag(e, c, a):
    t = as_sym(a[0])
    def p(e_, args):
        inp = as_sym(args[0])
        if inp.n < t.n: return nerr(inp)
        for i in range(t.n):
            if not e.branch(byte_eq(inp.at(i), t.at(i))): return nerr(inp)
        return Ok(Struct([inp.sub(t.n), inp.sub(0, t.n)]))
    return p

@lmodel('complete::take_until')
def _take_until(e, c, a):
    t = as_sym(a[0])
    def p(e_, args):
        inp = as_sym(args[0])
        for i in range(inp.n - t.n + 1):
            if all(e.branch(byte_eq(inp.at(i + k), t.at(k))) for k in range(t.n)):
                return Ok(Struct([inp.sub(i), inp.sub(0, i)]))
        return nerr(inp)
    return p

def while_class(e, inp, ranges):
    i = 0
    while i < inp.n and e.branch(in_ranges(e, inp.at(i), ranges)): i += 1
    return i

@lmodel('complete::alphanumeric1')
def _alphanumeric1(e, c, a):
    inp = as_sym(a[0]); i = while_class(e, inp, ALNUM)
    if i == 0: return nerr(inp)
    return Ok(Struct([inp.sub(i), inp.sub(0, i)]))
@lmodel('complete::alphanumeric0')
def _alphanumeric0(e, c, a):
    inp = as_sym(a[0]); i = while_class(e, inp, ALNUM)
    return Ok(Struct([inp.sub(i), inp.sub(0, i)]))
@lmodel('complete::multispace0')
def _multispace0(e, c, a):
    inp = as_sym(a[0]); i = while_class(e, inp, SPACE)
    return Ok(Struct([inp.sub(i), inp.sub(0, i)]))
@lmodel('complete::multispace1')
def _multispace1(e, c, a):
    inp = as_sym(a[0]); i = while_class(e, inp, SPACE)
    if i == 0: return nerr(inp)
    return Ok(Struct([inp.sub(i), inp.sub(0, i)]))

def seq(e, parsers, inp):
    """run parsers in sequence; -> (rest, [outputs]) or the first Err"""
    outs = []
    for p in parsers:
        r = run(e, p, inp)
        if r.v == 'Err': return r, None
        inp = r.f[0].f[0]; outs.append(r.f[0].f[1])
    return inp, outs

@lmodel('sequence::preceded', 'preceded')
def _preceded(e, c, a):
    p1, p2 = a
    def p(e_, args):
        rest, o = seq(e, [p1, p2], args[0])
        return rest if o is None else Ok(Struct([rest, o[1]]))
    return p
@lmodel('sequence::terminated', 'terminated')
def _terminated(e, c, a):
    p1, p2 = a
    def p(e_, args):
        rest, o = seq(e, [p1, p2], args[0])
        return rest if o is None else Ok(Struct([rest, o[0]]))
    return p
@lmodel('sequence::delimited', 'delimited')
def _delimited(e, c, a):
    p1, p2, p3 = a
    def p(e_, args):
        rest, o = seq(e, [p1, p2, p3], args[0])
        return rest if o is None else Ok(Struct([rest, o[1]]))
    return p
@lmodel('sequence::separated_pair', 'separated_pair')
def _separated_pair(e, c, a):
    p1, p2, p3 = a
    def p(e_, args):
        rest, o = seq(e, [p1, p2, p3], args[0])
        return rest if o is None else Ok(Struct([rest, Struct([o[0], o[2]])]))
    return p
@lmodel('sequence::pair', 'pair')
def _pair(e, c, a):
    p1, p2 = a
    def p(e_, args):
        rest, o = seq(e, [p1, p2], args[0])
        return rest if o is None else Ok(Struct([rest, Struct([o[0], o[1]])]))
    return p
@lmodel('sequence::tuple', 'tuple')
def _tuple(e, c, a):
    ps = list(a[0].f)
    def p(e_, args):
        rest, o = seq(e, ps, args[0])
        return rest if o is None else Ok(Struct([rest, Struct(o)]))
    return p
@lmodel('branch::alt', 'alt')
def _alt(e, c, a):
    ps = list(a[0].f)
    def p(e_, args):
        last = None
        for q in ps:
            r = run(e, q, args[0])
            if r.v == 'Ok': return r
            if r.f[0].v != 'Error': return r        # Failure / Incomplete are not recoverable
            last = r
        return last
    return p
@lmodel('multi::many1', 'many1')
def _many1(e, c, a):
    q = a[0]
    def p(e_, args):
        inp = as_sym(args[0]); outs = []
        r = run(e, q, inp)
        if r.v == 'Err': return r
        while True:
            rest = as_sym(r.f[0].f[0]); outs.append(r.f[0].f[1])
            if rest.n == inp.n: return nerr(inp)          # no progress: nom reports Many1 error to avoid an infinite loop
            inp = rest
            r = run(e, q, inp)
            if r.v == 'Err':
                if r.f[0].v == 'Error': return Ok(Struct([inp, VecObj(outs)]))
                return r
    return p
@lmodel('multi::many0', 'many0')
def _many0(e, c, a):
    q = a[0]
    def p(e_, args):
        inp = as_sym(args[0]); outs = []
        while True:
            r = run(e, q, inp)
            if r.v == 'Err':
                if r.f[0].v == 'Error': return Ok(Struct([inp, VecObj(outs)]))
                return r
            rest = as_sym(r.f[0].f[0])
            if rest.n == inp.n: return nerr(inp)
            outs.append(r.f[0].f[1]); inp = rest
    return p
@lmodel('combinator::all_consuming', 'all_consuming')
def _all_consuming(e, c, a):
    q = a[0]
    def p(e_, args):
        r = run(e, q, args[0])
        if r.v == 'Err': return r
        rest = as_sym(r.f[0].f[0])
        if rest.n != 0: return nerr(rest)
        return r
    return p
@lmodel('combinator::value', 'value')
def _value(e, c, a):
    val, q = a
    def p(e_, args):
        r = run(e, q, args[0])
        if r.v == 'Err': return r
        from .models import clone_val
        return Ok(Struct([r.f[0].f[0], clone_val(e, val)]))
    return p
@lmodel('combinator::map', 'nom::combinator::map')
def _cmap(e, c, a):
    q, f = a
    def p(e_, args):
        r = run(e, q, args[0])
        if r.v == 'Err': return r
        return Ok(Struct([r.f[0].f[0], e.call_value(f, [r.f[0].f[1]])]))
    return p
@lmodel('combinator::opt', 'opt')
def _opt(e, c, a):
    q = a[0]
    def p(e_, args):
        r = run(e, q, args[0])
        if r.v == 'Ok': return Ok(Struct([r.f[0].f[0], Some(r.f[0].f[1])]))
        if r.f[0].v == 'Error': return Ok(Struct([args[0], NONE()]))
        return r
    return p
@lmodel('combinator::recognize', 'recognize')
def _recognize(e, c, a):
    q = a[0]
    def p(e_, args):
        inp = as_sym(args[0]); r = run(e, q, inp)
        if r.v == 'Err': return r
        rest = as_sym(r.f[0].f[0])
        return Ok(Struct([rest, inp.sub(0, inp.n - rest.n)]))
    return p
@lmodel('combinator::cut', 'cut')
def _cut(e, c, a):
    q = a[0]
    def p(e_, args):
        r = run(e, q, args[0])
        if r.v == 'Err' and r.f[0].v == 'Error': return Err(Enum('Failure', list(r.f[0].f), 'Err'))
        return r
    return p
@lmodel('combinator::peek', 'peek')
def _peek(e, c, a):
    q = a[0]
    def p(e_, args):
        r = run(e, q, args[0])
        if r.v == 'Err': return r
        return Ok(Struct([args[0], r.f[0].f[1]]))
    return p
@lmodel('combinator::not', 'nom::combinator::not')
def _pnot(e, c, a):
    q = a[0]
    def p(e_, args):
        r = run(e, q, args[0])
        if r.v == 'Ok': return nerr(args[0])
        if r.f[0].v == 'Error': return Ok(Struct([args[0], UNIT]))
        return r
    return p
@lmodel('complete::char')
def _char(e, c, a):
    ch = a[0]
    def p(e_, args):
        inp = as_sym(args[0])
        if inp.n < 1 or not e.branch(byte_eq(inp.at(0), ch)): return nerr(inp)
        return Ok(Struct([inp.sub(1), ch]))
    return p
@lmodel('complete::alpha1')
def _alpha1(e, c, a):
    inp = as_sym(a[0]); i = while_class(e, inp, ALNUM[1:])
    if i == 0: return nerr(inp)
    return Ok(Struct([inp.sub(i), inp.sub(0, i)]))
@lmodel('complete::digit1')
def _digit1(e, c, a):
    inp = as_sym(a[0]); i = while_class(e, inp, ALNUM[:1])
    if i == 0: return nerr(inp)
    return Ok(Struct([inp.sub(i), inp.sub(0, i)]))
@lmodel('complete::space0')
def _space0(e, c, a):
    inp = as_sym(a[0]); i = while_class(e, inp, [(32, 32), (9, 9)])
    return Ok(Struct([inp.sub(i), inp.sub(0, i)]))

# ---- &str operations on symbolic content (UTF-8 aware: slicing inside a multi-byte character panics)
def boundary(e, s, i):
    """is byte offset i a char boundary of s?"""
    if i == 0 or i == s.n: return True
    if i > s.n: return False
    b = s.at(i)
    cont = z3.And(z3.UGE(b, 0x80), z3.ULE(b, 0xBF)) if is_sym(b) else (0x80 <= b <= 0xBF)
    return not e.branch(cont)
def sym_slice(e, s, lo, hi, checked):
    if lo > hi or hi > s.n or not boundary(e, s, lo) or not boundary(e, s, hi):
        if checked: return None
        raise RustPanic('byte index is not a char boundary / out of range of the string')
    return s.sub(lo, hi - lo)
def range_bounds(e, c, r, n):
    if 'RangeFull' in c or not getattr(r, 'f', None): return 0, n
    if 'RangeToInclusive' in c: return 0, e.concretize(r.f[0]) + 1
    if 'RangeTo' in c: return 0, e.concretize(r.f[0])
    if 'RangeFrom' in c: return e.concretize(r.f[0]), n
    if 'RangeInclusive' in c: return e.concretize(r.f[0]), e.concretize(r.f[1]) + 1
    return e.concretize(r.f[0]), e.concretize(r.f[1])
@lmodel('str::get')
def _str_get(e, c, a):
    s = as_sym(a[0]); lo, hi = range_bounds(e, c, a[1], s.n)
    r = sym_slice(e, s, lo, hi, True)
    return Some(r) if r is not None else NONE()
@lmodel('str::is_char_boundary')
def _is_cb(e, c, a): return boundary(e, as_sym(a[0]), e.concretize(a[1]))
@lmodel('str::is_empty')
def _s_is_empty(e, c, a): return as_sym(a[0]).n == 0
@lmodel('str::as_bytes')
def _as_bytes(e, c, a):
    s = as_sym(a[0]); return SliceRef(s.b, s.start, s.n)
@lmodel('str::starts_with')
def _s_starts_with(e, c, a):
    s = as_sym(a[0]); t = a[1]
    if isinstance(t, int): return s.n >= 1 and e.branch(byte_eq(s.at(0), t))
    t = as_sym(t)
    if t.n > s.n: return False
    return e.branch(e.and_all([byte_eq(s.at(i), t.at(i)) for i in range(t.n)]))
@lmodel('str::split_at')
def _s_split_at(e, c, a):
    s = as_sym(a[0]); k = e.concretize(a[1])
    l = sym_slice(e, s, 0, k, False)
    return Struct([l, s.sub(k)])
@lmodel('str::trim_start')
def _trim_start(e, c, a):
    s = as_sym(a[0]); i = while_class(e, s, SPACE); return s.sub(i)
@lmodel('Parser::parse')
def _parse(e, c, a): return run(e, a[0], a[1])

def install(e):
    e.models.update(LOCAL)
    from .models import M as STD
    std_index = STD['*::index']; std_len = STD['str::len']
    def index(e_, c, a):
        v = a[0]
        while isinstance(v, Ref): v = v.get()
        if isinstance(v, StrBuf): v = v.s
        if isinstance(v, SymStr) or (isinstance(v, str) and c.startswith('<str as')):
            s = as_sym(v); lo, hi = range_bounds(e_, c, a[1], s.n)
            return sym_slice(e_, s, lo, hi, False)
        return std_index(e_, c, a)
    index.model_name = '*::index'
    e.models['*::index'] = index; e.models['*::index_mut'] = index
    def slen(e_, c, a):
        v = a[0]
        while isinstance(v, Ref): v = v.get()
        if isinstance(v, StrBuf): v = v.s
        if isinstance(v, SymStr): return v.n
        return std_len(e_, c, a)
    slen.model_name = 'str::len'
    e.models['str::len'] = slen; e.models['String::len'] = slen
    # string equality / conversion for symbolic &str
    old_eq = e.eq_vals
    def eq_vals(a, b):
        x, y = a, b
        while isinstance(x, Ref): x = x.get()
        while isinstance(y, Ref): y = y.get()
        if isinstance(x, StrBuf): x = x.s
        if isinstance(y, StrBuf): y = y.s
        if isinstance(x, SymStr) or isinstance(y, SymStr): return str_eq(e, x, y)
        return old_eq(a, b)
    e.eq_vals = eq_vals
