use serde::{Deserialize, Serialize};
use std::collections::{HashMap, HashSet};

use adf_bdd::adf::Adf;
use adf_bdd::datatypes::{Term, Var};

#[derive(Clone, Deserialize, Serialize, Debug)]
/// This is a DTO for the graph output
pub struct DoubleLabeledGraph {
    // number of nodes equals the number of node labels
    // nodes implicitly have their index as their ID
    node_labels: HashMap<String, String>,
    // every node gets this label containing multiple entries (it might be empty)
    tree_root_labels: HashMap<String, Vec<String>>,
    lo_edges: Vec<(String, String)>,
    hi_edges: Vec<(String, String)>,
}

impl DoubleLabeledGraph {
    pub fn from_adf_and_ac(adf: &Adf, ac: Option<&Vec<Term>>) -> Self {
        let ac: &Vec<Term> = match ac {
            Some(ac) => ac,
            None => &adf.ac,
        };

        let mut node_indices: HashSet<usize> = HashSet::new();
        let mut new_node_indices: HashSet<usize> = ac.iter().map(|term| term.value()).collect();

        while !new_node_indices.is_empty() {
            node_indices = node_indices.union(&new_node_indices).copied().collect();
            new_node_indices = HashSet::new();

            for node_index in &node_indices {
                let lo_node_index = adf.bdd.nodes[*node_index].lo().value();
                if !node_indices.contains(&lo_node_index) {
                    new_node_indices.insert(lo_node_index);
                }

                let hi_node_index = adf.bdd.nodes[*node_index].hi().value();
                if !node_indices.contains(&hi_node_index) {
                    new_node_indices.insert(hi_node_index);
                }
            }
        }

        let node_labels: HashMap<String, String> = adf
            .bdd
            .nodes
            .iter()
            .enumerate()
            .filter(|(i, _)| node_indices.contains(i))
            .map(|(i, &node)| {
                let value_part = match node.var() {
                    Var::TOP => "TOP".to_string(),
                    Var::BOT => "BOT".to_string(),
                    _ => adf.ordering.name(node.var()).expect(
                        "name for each var should exist; special cases are handled separately",
                    ),
                };

                (i.to_string(), value_part)
            })
            .collect();

        let tree_root_labels_with_usize: HashMap<usize, Vec<String>> = ac.iter().enumerate().fold(
            adf.bdd
                .nodes
                .iter()
                .enumerate()
                .filter(|(i, _)| node_indices.contains(i))
                .map(|(i, _)| (i, vec![]))
                .collect(),
            |mut acc, (root_for, root_node)| {
                acc.get_mut(&root_node.value())
                    .expect("we know that the index will be in the map")
                    .push(adf.ordering.name(Var(root_for)).expect(
                        "name for each var should exist; special cases are handled separately",
                    ));

                acc
            },
        );

        let tree_root_labels: HashMap<String, Vec<String>> = tree_root_labels_with_usize
            .into_iter()
            .map(|(i, vec)| (i.to_string(), vec))
            .collect();

        let lo_edges: Vec<(String, String)> = adf
            .bdd
            .nodes
            .iter()
            .enumerate()
            .filter(|(i, _)| node_indices.contains(i))
            .filter(|(_, node)| ![Var::TOP, Var::BOT].contains(&node.var()))
            .map(|(i, &node)| (i, node.lo().value()))
            .map(|(i, v)| (i.to_string(), v.to_string()))
            .collect();

        let hi_edges: Vec<(String, String)> = adf
            .bdd
            .nodes
            .iter()
            .enumerate()
            .filter(|(i, _)| node_indices.contains(i))
            .filter(|(_, node)| ![Var::TOP, Var::BOT].contains(&node.var()))
            .map(|(i, &node)| (i, node.hi().value()))
            .map(|(i, v)| (i.to_string(), v.to_string()))
            .collect();

        DoubleLabeledGraph {
            node_labels,
            tree_root_labels,
            lo_edges,
            hi_edges,
        }
    }
}
