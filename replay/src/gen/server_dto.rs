// generated from server/src/adf.rs - do not edit
#![allow(unused)]
use std::collections::{HashMap, HashSet};
use std::sync::{Arc, RwLock};
use adf_bdd::datatypes::adf::VarContainer;
use adf_bdd::datatypes::{BddNode, Term, Var};
use serde::{Deserialize, Serialize};
use adf_bdd::adf::Adf;
use adf_bdd::obdd::Bdd;
type AcDb = Vec<String>;
#[derive(Clone, Deserialize, Serialize)]
pub(crate) struct VarContainerDb {
    names: Vec<String>,
    mapping: HashMap<String, String>,
}

impl From<VarContainer> for VarContainerDb {
    fn from(source: VarContainer) -> Self {
        Self {
            names: source.names().read().unwrap().clone(),
            mapping: source
                .mappings()
                .read()
                .unwrap()
                .iter()
                .map(|(k, v)| (k.clone(), v.to_string()))
                .collect(),
        }
    }
}

impl From<VarContainerDb> for VarContainer {
    fn from(source: VarContainerDb) -> Self {
        Self::from_parser(
            Arc::new(RwLock::new(source.names)),
            Arc::new(RwLock::new(
                source
                    .mapping
                    .into_iter()
                    .map(|(k, v)| (k, v.parse().unwrap()))
                    .collect(),
            )),
        )
    }
}

#[derive(Clone, Deserialize, Serialize)]
pub(crate) struct BddNodeDb {
    var: String,
    lo: String,
    hi: String,
}

impl From<BddNode> for BddNodeDb {
    fn from(source: BddNode) -> Self {
        Self {
            var: source.var().0.to_string(),
            lo: source.lo().0.to_string(),
            hi: source.hi().0.to_string(),
        }
    }
}

impl From<BddNodeDb> for BddNode {
    fn from(source: BddNodeDb) -> Self {
        Self::new(
            Var(source.var.parse().unwrap()),
            Term(source.lo.parse().unwrap()),
            Term(source.hi.parse().unwrap()),
        )
    }
}

type SimplifiedBdd = Vec<BddNodeDb>;

#[derive(Clone, Deserialize, Serialize)]
pub(crate) struct SimplifiedAdf {
    pub(crate) ordering: VarContainerDb,
    pub(crate) bdd: SimplifiedBdd,
    pub(crate) ac: AcDb,
}

impl From<Adf> for SimplifiedAdf {
    fn from(source: Adf) -> Self {
        Self {
            ordering: source.ordering.into(),
            bdd: source.bdd.nodes.into_iter().map(Into::into).collect(),
            ac: source.ac.into_iter().map(|t| t.0.to_string()).collect(),
        }
    }
}

impl From<SimplifiedAdf> for Adf {
    fn from(source: SimplifiedAdf) -> Self {
        let bdd = Bdd::from(
            source
                .bdd
                .into_iter()
                .map(Into::into)
                .collect::<Vec<BddNode>>(),
        );

        Adf::from((
            source.ordering.into(),
            bdd,
            source
                .ac
                .into_iter()
                .map(|t| Term(t.parse().unwrap()))
                .collect(),
        ))
    }
}

