// generated from server/src/adf.rs - do not edit
#![allow(unused)]
use std::collections::{HashMap, HashSet};
use std::sync::{Arc, RwLock};
use adf_bdd::datatypes::adf::VarContainer;
use adf_bdd::datatypes::{BddNode, Term, Var};
use serde::{Deserialize, Serialize};
use adf_bdd::adf::Adf;
use adf_bdd::obdd::Bdd;
type AcDb = Vec<String>;
#[derive(Clone, Deserialize, Serialize)]
pub(crate) struct VarContainerDb {
    names: Vec<String>,
    mapping: HashMap<String, String>,
}

impl From<VarContainer> for VarContainerDb {
    fn from(source: VarContainer) -> Self {
        Self {
            names: source.names().read().unwrap().clone(),
            mapping: source
                .mappings()
                .read()
                .unwrap()
                .iter()
                .map(|(k, v)| (k.clone(), v.to_string()))
                .collect(),
        }
    }
}

impl From<VarContainerDb> for VarContainer {
    fn from(source: VarContainerDb) -> Self {
        Self::from_parser(
            Arc::new(RwLock::new(source.names)),
            Arc::new(RwLock::new(
                source
                    .mapping
                    .into_iter()
                    .map(|(k, v)| (k, v.parse().unwrap()))
                    .collect(),
            )),
        )
    }
}

#[derive(Clone, Deserialize, Serialize)]
pub(crate) struct BddNodeDb {
    var: String,
    lo: String,
    hi: String,
}

impl From<BddNode> for BddNodeDb {
    fn from(source: BddNode) -> Self {
        Self {
            var: source.var().0.to_string(),
            lo: source.lo().0.to_string(),
            hi: source.hi().0.to_string(),
        }
    }
}

impl From<BddNodeDb> for BddNode {
    fn from(source: BddNodeDb) -> Self {
        Self::new(
            Var(source.var.parse().unwrap()),
            Term(source.lo.parse().unwrap()),
            Term(source.hi.parse().unwrap()),
        )
    }
}

type SimplifiedBdd = Vec<BddNodeDb>;

#[derive(Clone, Deserialize, Serialize)]
pub(crate) struct SimplifiedAdf {
    pub(crate) ordering: VarContainerDb,
    pub(crate) bdd: SimplifiedBdd,
    pub(crate) ac: AcDb,
}

impl From<Adf> for SimplifiedAdf {
    fn from(source: Adf) -> Self {
        Self {
            ordering: source.ordering.into(),
            bdd: source.bdd.nodes.into_iter().map(Into::into).collect(),
            ac: source.ac.into_iter().map(|t| t.0.to_string()).collect(),
        }
    }
}

impl From<SimplifiedAdf> for Adf {
    fn from(source: SimplifiedAdf) -> Self {
        let bdd = Bdd::from(
            source
                .bdd
                .into_iter()
                .map(Into::into)
                .collect::<Vec<BddNode>>(),
        );

        Adf::from((
            source.ordering.into(),
            bdd,
            source
                .ac
                .into_iter()
                .map(|t| Term(t.parse().unwrap()))
                .collect(),
        ))
    }
}


// ---- handler closures, generated from server/src/adf.rs and server/src/config.rs
use std::sync::Mutex;
use adf_bdd::adfbiodivine::Adf as BdAdf;
use adf_bdd::parser::AdfParser;
use crate::double_labeled_graph::DoubleLabeledGraph;
type Ac = Vec<Term>;
#[derive(Copy, Clone, Debug, Deserialize, Serialize)]
pub(crate) enum Parsing {
    Naive,
    Hybrid,
}
#[derive(Copy, Clone, Debug, PartialEq, Eq, Hash, Deserialize, Serialize)]
pub(crate) enum Strategy {
    Ground,
    Complete,
    Stable,
    StableCountingA,
    StableCountingB,
    StableNogood,
}
#[derive(Clone, Deserialize, Serialize)]
pub(crate) struct AcAndGraph {
    pub(crate) ac: AcDb,
    pub(crate) graph: DoubleLabeledGraph,
}
#[derive(Clone, Default, Deserialize, Serialize)]
#[serde(tag = "type", content = "content")]
pub(crate) enum OptionWithError<T> {
    Some(T),
    Error(String),
    #[default]
    None,
}
impl<T> OptionWithError<T> {
    fn is_some(&self) -> bool {
        matches!(self, Self::Some(_))
    }
}
#[derive(Default, Deserialize, Serialize)]
pub(crate) struct AcsPerStrategy {
    pub(crate) parse_only: AcsAndGraphsOpt,
    pub(crate) ground: AcsAndGraphsOpt,
    pub(crate) complete: AcsAndGraphsOpt,
    pub(crate) stable: AcsAndGraphsOpt,
    pub(crate) stable_counting_a: AcsAndGraphsOpt,
    pub(crate) stable_counting_b: AcsAndGraphsOpt,
    pub(crate) stable_nogood: AcsAndGraphsOpt,
}
#[derive(Deserialize, Serialize)]
pub(crate) struct AdfProblem {
    pub(crate) name: String,
    pub(crate) username: String,
    pub(crate) code: String,
    pub(crate) parsing_used: Parsing,
    pub(crate) adf: SimplifiedAdfOpt,
    pub(crate) acs_per_strategy: AcsPerStrategy,
}
#[derive(Clone)]
struct AddAdfProblemBodyPlain {
    name: String,
    code: String,
    parsing: Parsing,
}
#[derive(Serialize)]
struct AdfProblemInfo {
    name: String,
    code: String,
    parsing_used: Parsing,
    acs_per_strategy: AcsPerStrategy,
    running_tasks: Vec<Task>,
}
impl AdfProblemInfo {
    fn from_adf_prob_and_tasks(adf: AdfProblem, tasks: &HashSet<RunningInfo>) -> Self {
        AdfProblemInfo {
            name: adf.name.clone(),
            code: adf.code,
            parsing_used: adf.parsing_used,
            acs_per_strategy: adf.acs_per_strategy,
            running_tasks: tasks
                .iter()
                .filter_map(|t| {
                    (t.adf_name == adf.name && t.username == adf.username).then_some(t.task)
                })
                .collect(),
        }
    }
}
#[derive(Deserialize)]
struct SolveAdfProblemBody {
    strategy: Strategy,
}
type AcsAndGraphsOpt = OptionWithError<Vec<AcAndGraph>>;
type SimplifiedAdfOpt = OptionWithError<SimplifiedAdf>;
#[derive(Copy, Clone, Debug, PartialEq, Eq, Hash, Serialize)]
#[serde(tag = "type", content = "content")]
pub(crate) enum Task {
    Parse,
    Solve(Strategy),
}
#[derive(Clone, Debug, PartialEq, Eq, Hash)]
pub(crate) struct RunningInfo {
    pub(crate) username: String,
    pub(crate) adf_name: String,
    pub(crate) task: Task,
}
pub(crate) struct AppState { pub(crate) currently_running: Mutex<HashSet<RunningInfo>> }
pub(crate) fn add_closure(app_state: Arc<AppState>, username: String, problem_name: String, code: String, parsing: Parsing) -> Result<(SimplifiedAdf, AcAndGraph), &'static str> {
    let username_clone = username.clone();
    let problem_name_clone = problem_name.clone();
    let adf_problem_input = AddAdfProblemBodyPlain { name: problem_name.clone(), code, parsing };
    (move || {
            let running_info = RunningInfo {
                username: username_clone,
                adf_name: problem_name_clone,
                task: Task::Parse,
            };

            app_state
                .currently_running
                .lock()
                .unwrap()
                .insert(running_info.clone());

            #[cfg(feature = "mock_long_computations")]
            std::thread::sleep(Duration::from_secs(20));

            let parser = AdfParser::default();
            let parse_result = parser.parse()(&adf_problem_input.code)
                .map_err(|_| "ADF could not be parsed, double check your input!");

            let result = parse_result.map(|_| {
                let lib_adf = match adf_problem_input.parsing {
                    Parsing::Naive => Adf::from_parser(&parser),
                    Parsing::Hybrid => {
                        let bd_adf = BdAdf::from_parser(&parser);
                        bd_adf.hybrid_step_opt(false)
                    }
                };

                let ac_and_graph = AcAndGraph {
                    ac: lib_adf.ac.iter().map(|t| t.0.to_string()).collect(),
                    graph: DoubleLabeledGraph::from_adf_and_ac(&lib_adf, None),
                };

                (SimplifiedAdf::from(lib_adf), ac_and_graph)
            });

            app_state
                .currently_running
                .lock()
                .unwrap()
                .remove(&running_info);

            result
        })()
}
pub(crate) fn solve_closure(app_state: Arc<AppState>, running_info: RunningInfo, simp_adf: SimplifiedAdf, strategy: Strategy) -> Vec<AcAndGraph> {
    let adf_problem_input = SolveAdfProblemBody { strategy };
    let username = running_info.username.clone();
    let problem_name = running_info.adf_name.clone();
    let username_clone = username.clone();
    let problem_name_clone = problem_name.clone();
    (move || {
            app_state
                .currently_running
                .lock()
                .unwrap()
                .insert(running_info.clone());

            #[cfg(feature = "mock_long_computations")]
            std::thread::sleep(Duration::from_secs(20));

            let mut adf: Adf = simp_adf.into();

            let acs: Vec<Ac> = match adf_problem_input.strategy {
                Strategy::Complete => adf.complete().collect(),
                Strategy::Ground => vec![adf.grounded()],
                Strategy::Stable => adf.stable().collect(),
                // TODO: INPUT VALIDATION: only allow this for hybrid parsing
                Strategy::StableCountingA => adf.stable_count_optimisation_heu_a().collect(),
                // TODO: INPUT VALIDATION: only allow this for hybrid parsing
                Strategy::StableCountingB => adf.stable_count_optimisation_heu_b().collect(),
                // TODO: support more than just default heuristics
                Strategy::StableNogood => adf
                    .stable_nogood(adf_bdd::adf::heuristics::Heuristic::default())
                    .collect(),
            };

            let acs_and_graphs: Vec<AcAndGraph> = acs
                .iter()
                .map(|ac| AcAndGraph {
                    ac: ac.iter().map(|t| t.0.to_string()).collect(),
                    graph: DoubleLabeledGraph::from_adf_and_ac(&adf, Some(ac)),
                })
                .collect();

            app_state
                .currently_running
                .lock()
                .unwrap()
                .remove(&running_info);

            acs_and_graphs
        })()
}
pub(crate) fn running_tasks_of(adf: AdfProblem, tasks: &HashSet<RunningInfo>) -> Vec<Task> { AdfProblemInfo::from_adf_prob_and_tasks(adf, tasks).running_tasks }
