//! C16 kernels compiled from the server crate's source text (see vlib/build.py: gen_server_sources)
use crate::cmds::*;
use crate::double_labeled_graph::DoubleLabeledGraph;
use crate::server_dto::SimplifiedAdf;
use crate::*;
use adf_bdd::adf::Adf;
use adf_bdd::datatypes::adf::VarContainer;
use std::collections::HashMap;
use std::sync::{Arc, RwLock};

fn named_adf(n: usize, tabs: &[Vec<u8>], names: &[String]) -> Adf {
    if tabs.is_empty() {
        // statements whose acceptance condition is the statement itself (dictionary tests with many statements)
        let mut bdd = Bdd::new();
        let acs: Vec<Term> = (0..n).map(|v| bdd.variable(Var(v))).collect();
        let mapping: HashMap<String, usize> = names.iter().enumerate().map(|(i, s)| (s.clone(), i)).collect();
        let vc = VarContainer::from_parser(Arc::new(RwLock::new(names.to_vec())), Arc::new(RwLock::new(mapping)));
        return Adf::from((vc, bdd, acs));
    }
    let plain = adf_from_tabs(n, tabs);
    let mapping: HashMap<String, usize> = names.iter().enumerate().map(|(i, s)| (s.clone(), i)).collect();
    let vc = VarContainer::from_parser(Arc::new(RwLock::new(names.to_vec())), Arc::new(RwLock::new(mapping)));
    Adf::from((vc, Bdd::from(plain.bdd.nodes.clone()), plain.ac.clone()))
}

fn names_of_req(v: &Value, n: usize) -> Vec<String> {
    v["names"].as_array().map(|a| a.iter().map(|x| x.as_str().unwrap().to_string()).collect()).unwrap_or_else(|| (0..n).map(|i| format!("s{}", i)).collect())
}

/// graph of the ADF (ac = None) or of every model of a strategy, as the web service produces them
pub fn graph_cmd(v: &Value) -> Value {
    let n = us(&v["n"]);
    let tabs: Vec<Vec<u8>> = v["tabs"].as_array().unwrap().iter().map(|t| t.as_array().unwrap().iter().map(|b| b.as_u64().unwrap() as u8).collect()).collect();
    let names = names_of_req(v, n);
    let mut adf = named_adf(n, &tabs, &names);
    let which = v["which"].as_str().unwrap_or("none");
    let mut out = Vec::new();
    if which == "none" {
        let g = DoubleLabeledGraph::from_adf_and_ac(&adf, None);
        out.push(json!({"ac": adf.ac.iter().map(|t| t.value()).collect::<Vec<_>>(), "graph": serde_json::to_value(&g).unwrap()}));
    } else {
        let (models, _) = run_proc(&mut adf, which, v);
        for m in models.iter() {
            let g = DoubleLabeledGraph::from_adf_and_ac(&adf, Some(m));
            out.push(json!({"ac": m.iter().map(|t| t.value()).collect::<Vec<_>>(), "graph": serde_json::to_value(&g).unwrap()}));
        }
    }
    json!({"graphs": out, "nodes": dump_nodes(&adf.bdd), "names": names})
}

/// Adf -> SimplifiedAdf (strings, as stored in the database) -> Adf, then a semantics query on the rebuilt object
pub fn db_roundtrip(v: &Value) -> Value {
    let n = us(&v["n"]);
    let tabs: Vec<Vec<u8>> = v["tabs"].as_array().unwrap().iter().map(|t| t.as_array().unwrap().iter().map(|b| b.as_u64().unwrap() as u8).collect()).collect();
    let names = names_of_req(v, n);
    let mut adf = named_adf(n, &tabs, &names);
    for c in v["history"].as_array().map(|a| a.clone()).unwrap_or_default() {
        run_proc(&mut adf, c.as_str().unwrap(), v);
    }
    let nodes_before = dump_nodes(&adf.bdd);
    let ac_before: Vec<usize> = adf.ac.iter().map(|t| t.value()).collect();
    let names_before = adf.ordering.names().read().unwrap().clone();
    let simp = SimplifiedAdf::from(adf);
    let stored = serde_json::to_value(&simp).unwrap();
    let mut back = Adf::from(simp);
    let nodes_after = dump_nodes(&back.bdd);
    let ac_after: Vec<usize> = back.ac.iter().map(|t| t.value()).collect();
    let names_after = back.ordering.names().read().unwrap().clone();
    let fin = v["final"].as_str().unwrap_or("grounded");
    let (res, _) = run_proc(&mut back, fin, v);
    let mut fresh = named_adf(n, &tabs, &names);
    let (res2, _) = run_proc(&mut fresh, fin, v);
    json!({"nodes_before": nodes_before, "nodes_after": nodes_after, "ac_before": ac_before, "ac_after": ac_after, "names_before": names_before, "names_after": names_after,
           "after": res.iter().map(|r| classes(r)).collect::<Vec<_>>(), "fresh": res2.iter().map(|r| classes(r)).collect::<Vec<_>>(), "stored": stored,
           "name_lookup_ok": (0..n).all(|i| back.ordering.variable(&names[i]) == Some(Var(i)) && back.ordering.name(Var(i)).as_deref() == Some(names[i].as_str()))})
}
