//! C16 kernels compiled from the server crate's source text (see vlib/build.py: gen_server_sources)
use crate::cmds::*;
use crate::double_labeled_graph::DoubleLabeledGraph;
use crate::server_dto::SimplifiedAdf;
use crate::*;
use adf_bdd::adf::Adf;
use adf_bdd::datatypes::adf::VarContainer;
use std::collections::HashMap;
use std::sync::{Arc, RwLock};

fn named_adf(n: usize, tabs: &[Vec<u8>], names: &[String]) -> Adf {
    if tabs.is_empty() {
        // statements whose acceptance condition is the statement itself (dictionary tests with many statements)
        let mut bdd = Bdd::new();
        let acs: Vec<Term> = (0..n).map(|v| bdd.variable(Var(v))).collect();
        let mapping: HashMap<String, usize> = names.iter().enumerate().map(|(i, s)| (s.clone(), i)).collect();
        let vc = VarContainer::from_parser(Arc::new(RwLock::new(names.to_vec())), Arc::new(RwLock::new(mapping)));
        return Adf::from((vc, bdd, acs));
    }
    let plain = adf_from_tabs(n, tabs);
    let mapping: HashMap<String, usize> = names.iter().enumerate().map(|(i, s)| (s.clone(), i)).collect();
    let vc = VarContainer::from_parser(Arc::new(RwLock::new(names.to_vec())), Arc::new(RwLock::new(mapping)));
    Adf::from((vc, Bdd::from(plain.bdd.nodes.clone()), plain.ac.clone()))
}

fn names_of_req(v: &Value, n: usize) -> Vec<String> {
    v["names"].as_array().map(|a| a.iter().map(|x| x.as_str().unwrap().to_string()).collect()).unwrap_or_else(|| (0..n).map(|i| format!("s{}", i)).collect())
}

/// graph of the ADF (ac = None) or of every model of a strategy, as the web service produces them
pub fn graph_cmd(v: &Value) -> Value {
    let n = us(&v["n"]);
    let tabs: Vec<Vec<u8>> = v["tabs"].as_array().unwrap().iter().map(|t| t.as_array().unwrap().iter().map(|b| b.as_u64().unwrap() as u8).collect()).collect();
    let names = names_of_req(v, n);
    let mut adf = named_adf(n, &tabs, &names);
    let which = v["which"].as_str().unwrap_or("none");
    let mut out = Vec::new();
    if which == "none" {
        let g = DoubleLabeledGraph::from_adf_and_ac(&adf, None);
        out.push(json!({"ac": adf.ac.iter().map(|t| t.value()).collect::<Vec<_>>(), "graph": serde_json::to_value(&g).unwrap()}));
    } else {
        let (models, _) = run_proc(&mut adf, which, v);
        for m in models.iter() {
            let g = DoubleLabeledGraph::from_adf_and_ac(&adf, Some(m));
            out.push(json!({"ac": m.iter().map(|t| t.value()).collect::<Vec<_>>(), "graph": serde_json::to_value(&g).unwrap()}));
        }
    }
    json!({"graphs": out, "nodes": dump_nodes(&adf.bdd), "names": names})
}

/// Adf -> SimplifiedAdf (strings, as stored in the database) -> Adf, then a semantics query on the rebuilt object
pub fn db_roundtrip(v: &Value) -> Value {
    let n = us(&v["n"]);
    let tabs: Vec<Vec<u8>> = v["tabs"].as_array().unwrap().iter().map(|t| t.as_array().unwrap().iter().map(|b| b.as_u64().unwrap() as u8).collect()).collect();
    let names = names_of_req(v, n);
    let mut adf = named_adf(n, &tabs, &names);
    for c in v["history"].as_array().map(|a| a.clone()).unwrap_or_default() {
        run_proc(&mut adf, c.as_str().unwrap(), v);
    }
    let nodes_before = dump_nodes(&adf.bdd);
    let ac_before: Vec<usize> = adf.ac.iter().map(|t| t.value()).collect();
    let names_before = adf.ordering.names().read().unwrap().clone();
    let simp = SimplifiedAdf::from(adf);
    let stored = serde_json::to_value(&simp).unwrap();
    let mut back = Adf::from(simp);
    let nodes_after = dump_nodes(&back.bdd);
    let ac_after: Vec<usize> = back.ac.iter().map(|t| t.value()).collect();
    let names_after = back.ordering.names().read().unwrap().clone();
    let fin = v["final"].as_str().unwrap_or("grounded");
    let (res, _) = run_proc(&mut back, fin, v);
    let mut fresh = named_adf(n, &tabs, &names);
    let (res2, _) = run_proc(&mut fresh, fin, v);
    json!({"nodes_before": nodes_before, "nodes_after": nodes_after, "ac_before": ac_before, "ac_after": ac_after, "names_before": names_before, "names_after": names_after,
           "after": res.iter().map(|r| classes(r)).collect::<Vec<_>>(), "fresh": res2.iter().map(|r| classes(r)).collect::<Vec<_>>(), "stored": stored,
           "name_lookup_ok": (0..n).all(|i| back.ordering.variable(&names[i]) == Some(Var(i)) && back.ordering.name(Var(i)).as_deref() == Some(names[i].as_str()))})
}

// ---------------------------------------------------------------- handler closures (generated wrappers in gen/server_dto.rs)
use crate::server_dto::{add_closure, running_tasks_of, solve_closure, AdfProblem, AppState, Parsing, RunningInfo, Strategy, Task};
use std::collections::HashSet;
use std::sync::Mutex;

fn task_of(v: &Value) -> Task {
    match v.as_str().unwrap_or("Parse") {
        "Parse" => Task::Parse,
        s => Task::Solve(serde_json::from_value(json!(s)).expect("strategy")),
    }
}

fn running_of(v: &Value) -> HashSet<RunningInfo> {
    v.as_array().map(|a| a.iter().map(|x| RunningInfo { username: x[0].as_str().unwrap().to_string(), adf_name: x[1].as_str().unwrap().to_string(), task: task_of(&x[2]) }).collect()).unwrap_or_default()
}

fn running_dump(s: &HashSet<RunningInfo>) -> Value {
    let mut v: Vec<Vec<String>> = s.iter().map(|r| vec![r.username.clone(), r.adf_name.clone(), match r.task { Task::Parse => "Parse".to_string(), Task::Solve(st) => format!("{:?}", st) }]).collect();
    v.sort();
    json!(v)
}

/// the code a client submits goes through the closure of add_adf_problem (parse, compile by the chosen parsing strategy, picture, stored form) and then,
/// for every requested strategy, through the closure of solve_adf_problem on the stored form - exactly the two synchronous steps of the web service
pub fn handler_chain(v: &Value) -> Value {
    let others = running_of(&v["others"]);
    let app = Arc::new(AppState { currently_running: Mutex::new(others) });
    let parsing: Parsing = serde_json::from_value(v["parsing"].clone()).expect("parsing");
    let user = v["user"].as_str().unwrap_or("u").to_string();
    let name = v["name"].as_str().unwrap_or("p").to_string();
    let added = add_closure(app.clone(), user.clone(), name.clone(), v["code"].as_str().unwrap().to_string(), parsing);
    let running_after_add = running_dump(&app.currently_running.lock().unwrap());
    let (simp, ag) = match added {
        Err(e) => return json!({"add_ok": false, "err": e, "running_after_add": running_after_add}),
        Ok(x) => x,
    };
    let mut solves = serde_json::Map::new();
    let mut running_after = serde_json::Map::new();
    for st in v["strategies"].as_array().cloned().unwrap_or_default() {
        let strategy: Strategy = serde_json::from_value(st.clone()).expect("strategy");
        let ri = RunningInfo { username: user.clone(), adf_name: name.clone(), task: Task::Solve(strategy) };
        let res = solve_closure(app.clone(), ri, simp.clone(), strategy);
        solves.insert(st.as_str().unwrap().to_string(), serde_json::to_value(&res).unwrap());
        running_after.insert(st.as_str().unwrap().to_string(), running_dump(&app.currently_running.lock().unwrap()));
    }
    json!({"add_ok": true, "simp": serde_json::to_value(&simp).unwrap(), "parse_only": serde_json::to_value(&ag).unwrap(), "running_after_add": running_after_add,
           "solves": solves, "running_after_solve": running_after})
}

/// AdfProblemInfo::from_adf_prob_and_tasks: which tasks are reported as running for a problem
pub fn running_tasks_cmd(v: &Value) -> Value {
    let tasks = running_of(&v["running"]);
    let prob = AdfProblem { name: v["name"].as_str().unwrap().to_string(), username: v["user"].as_str().unwrap().to_string(), code: String::new(), parsing_used: Parsing::Naive,
                            adf: Default::default(), acs_per_strategy: Default::default() };
    let mut out: Vec<String> = running_tasks_of(prob, &tasks).iter().map(|t| match t { Task::Parse => "Parse".to_string(), Task::Solve(st) => format!("{:?}", st) }).collect();
    out.sort();
    json!({"running_tasks": out})
}
