use crate::*;

pub fn dispatch(v: &Value) -> Value {
    match v["cmd"].as_str().unwrap_or("") {
        "bdd_script" => bdd_script(v),
        "adf_sem" => adf_sem(v),
        "iter" => iter_cmd(v),
        "parse" => parse_cmd(v),
        #[cfg(feature = "server_dto")]
        "graph" => crate::server_cmds::graph_cmd(v),
        #[cfg(feature = "server_dto")]
        "db_roundtrip" => crate::server_cmds::db_roundtrip(v),
        #[cfg(feature = "server_dto")]
        "handler_chain" => crate::server_cmds::handler_chain(v),
        #[cfg(feature = "server_dto")]
        "running_tasks" => crate::server_cmds::running_tasks_cmd(v),
        "compile" => compile_cmd(v),
        "sem_text" => sem_text(v),
        "adf_persist" => adf_persist(v),
        "adf_history" => adf_history(v),
        "mirror" => mirror_cmd(v),
        "mirror_bounded" => mirror_bounded(v),
        "ng" => ng_cmd(v),
        "completion_search" => completion_search(v),
        "bridge_store" => bridge_store(v),
        "bdd_query" => bdd_query(v),
        "counts_kernel" => {
            let mc: ModelCounts = (us(&v["cmodels"]), us(&v["models"])).into();
            json!({"more_models": mc.more_models(), "minimum": mc.minimum().to_string()})
        }
        "adf_tables" => adf_tables(v),
        "features" => json!({
            "adhoccounting": cfg!(feature = "adhoccounting"),
            "adhoccountmodels": cfg!(feature = "adhoccountmodels"),
            "variablelist": cfg!(feature = "variablelist"),
            "frontend": cfg!(feature = "frontend"),
        }),
        other => json!({"error": format!("unknown cmd {}", other)}),
    }
}

pub fn us(v: &Value) -> usize {
    if let Some(s) = v.as_str() {
        s.parse::<usize>().unwrap()
    } else {
        v.as_u64().unwrap() as usize
    }
}

/// executes a script of diagram operations on one store; reports handle + full node table after each step
pub fn bdd_script(v: &Value) -> Value {
    let n = us(&v["n"]);
    let mut bdd = Bdd::new();
    let mut handles: Vec<Term> = Vec::new();
    let mut steps_out = Vec::new();
    for st in v["steps"].as_array().unwrap() {
        let op = st["op"].as_str().unwrap();
        let h = |k: &str| handles[us(&st[k])];
        let r = match op {
            "shannon" => {
                let bits: Vec<u8> = st["bits"].as_array().unwrap().iter().map(|b| b.as_u64().unwrap() as u8).collect();
                shannon(&mut bdd, &bits, n, 0, 0)
            }
            "variable" => bdd.variable(Var(us(&st["var"]))),
            "constant" => Bdd::constant(st["val"].as_bool().unwrap()),
            "node" => bdd.node(Var(us(&st["var"])), h("a"), h("b")),
            "not" => bdd.not(h("a")),
            "and" => bdd.and(h("a"), h("b")),
            "or" => bdd.or(h("a"), h("b")),
            "imp" => bdd.imp(h("a"), h("b")),
            "iff" => bdd.iff(h("a"), h("b")),
            "xor" => bdd.xor(h("a"), h("b")),
            "restrict" => bdd.restrict(h("a"), Var(us(&st["var"])), st["val"].as_bool().unwrap()),
            "reimport" => {
                // rebuild the store from its own node list (database path of the web service)
                let nodes = bdd.nodes.clone();
                bdd = Bdd::from(nodes);
                Term(0)
            }
            "serde_reimport" => {
                let text = serde_json::to_string(&bdd).expect("export");
                bdd = serde_json::from_str(&text).expect("import");
                bdd.fix_import();
                Term(0)
            }
            _ => panic!("unknown op {}", op),
        };
        handles.push(r);
        steps_out.push(json!({"h": r.value(), "nodes": bdd.nodes.len(), "table": table(&bdd, r, n)}));
    }
    let tables: Vec<Value> = handles.iter().map(|h| table(&bdd, *h, n)).collect();
    let nodes_dump = dump_nodes(&bdd);
    // a complete unique table answers a request for an existing node with the existing handle
    let mut renode = Value::Null;
    for i in 2..bdd.nodes.len() {
        let nd = bdd.nodes[i];
        let t = bdd.node(nd.var(), nd.lo(), nd.hi());
        if t != Term(i) {
            renode = json!(format!("node {} requested again received the new handle {} (unique table incomplete: duplicate node)", i, t.value()));
            break;
        }
    }
    json!({"steps": steps_out, "nodes": nodes_dump, "final_tables": tables, "renode_problem": renode})
}

use adf_bdd::adf::heuristics::Heuristic;
use adf_bdd::adf::Adf;
use adf_bdd::datatypes::adf::VarContainer;
use adf_bdd::parser::AdfParser;

fn tabs_of(v: &Value) -> Vec<Vec<u8>> {
    v.as_array().unwrap().iter().map(|t| t.as_array().unwrap().iter().map(|b| b.as_u64().unwrap() as u8).collect()).collect()
}

/// the ADF of the harnesses: variables first (as Adf::from_parser does), then Shannon expansion of every table
pub fn adf_from_tabs(n: usize, tabs: &[Vec<u8>]) -> Adf {
    adf_from_tabs_opt(n, tabs, false)
}

/// `novars`: the bare variable nodes are not created up front - the shape of a store that came over the biodivine bridge
/// (Adf::from_biodivine_vector only inserts the nodes of the diagrams)
pub fn adf_from_tabs_opt(n: usize, tabs: &[Vec<u8>], novars: bool) -> Adf {
    let mut bdd = Bdd::new();
    for v in 0..n {
        if !novars {
            bdd.variable(Var(v));
        }
    }
    let acs: Vec<Term> = tabs.iter().map(|t| shannon(&mut bdd, t, n, 0, 0)).collect();
    Adf::from((VarContainer::default(), bdd, acs))
}

pub fn classes(v: &[Term]) -> String {
    v.iter().map(|t| if t.is_truth_value() { if t.is_true() { 'T' } else { 'F' } } else { 'u' }).collect()
}

fn heuristic_by_name<'a>(name: &str, custom: &'a adf_bdd::adf::heuristics::HeuristicFn) -> Heuristic<'a> {
    match name {
        "Simple" => Heuristic::Simple,
        "MinModMinPathsMaxVarImp" => Heuristic::MinModMinPathsMaxVarImp,
        "MinModMaxVarImpMinPaths" => Heuristic::MinModMaxVarImpMinPaths,
        "Rand" => Heuristic::Rand,
        "Custom" => Heuristic::Custom(custom),
        _ => panic!("heuristic {}", name),
    }
}

pub fn run_proc(adf: &mut Adf, proc_: &str, v: &Value) -> (Vec<Vec<Term>>, bool) {
    let choices: std::sync::Mutex<std::collections::VecDeque<(usize, bool)>> = std::sync::Mutex::new(
        v["custom_choices"].as_array().map(|a| a.iter().map(|c| (us(&c[0]), c[1].as_bool().unwrap())).collect()).unwrap_or_default(),
    );
    let custom = move |_adf: &Adf, int: &[Term]| -> Option<(Var, Term)> {
        if let Some((i, b)) = choices.lock().unwrap().pop_front() {
            return Some((Var(i), Term::from(b)));
        }
        int.iter().enumerate().find(|(_, t)| !t.is_truth_value()).map(|(i, _)| (Var(i), Term::TOP))
    };
    let mut sender_alive = false;
    let res: Vec<Vec<Term>> = match proc_ {
        "grounded" => vec![adf.grounded()],
        "complete" => adf.complete().collect(),
        "stable" => adf.stable().collect(),
        "stable_with_prefilter" => adf.stable_with_prefilter().collect(),
        "heu_a" => adf.stable_count_optimisation_heu_a().collect(),
        "heu_b" => adf.stable_count_optimisation_heu_b().collect(),
        other => {
            let (kind, heu) = other.split_once(':').expect("proc");
            let h = heuristic_by_name(heu, &custom);
            match kind {
                "nogood" => adf.stable_nogood(h).collect(),
                "nogood_channel" | "twoval_channel" => {
                    let (s, r) = crossbeam_channel::unbounded();
                    let keep = s.clone();
                    if kind == "nogood_channel" {
                        adf.stable_nogood_channel(h, s);
                    } else {
                        adf.two_val_nogood_channel(h, s);
                    }
                    drop(keep);
                    let out: Vec<Vec<Term>> = r.try_iter().collect();
                    sender_alive = matches!(r.try_recv(), Err(crossbeam_channel::TryRecvError::Empty));
                    out
                }
                _ => panic!("proc {}", other),
            }
        }
    };
    (res, sender_alive)
}

pub fn adf_sem(v: &Value) -> Value {
    let n = us(&v["n"]);
    let tabs = tabs_of(&v["tabs"]);
    let mut adf = adf_from_tabs(n, &tabs);
    if let Some(sd) = v["seed"].as_u64() {
        let mut seed = [0u8; 32];
        seed[..8].copy_from_slice(&sd.to_le_bytes());
        adf.seed(seed);
    }
    let proc_ = v["proc"].as_str().unwrap();
    if let Some((backend, inner)) = proc_.split_once('/') {
        return backend_sem(n, &tabs, backend, inner, v);
    }
    let (res, sender_alive) = run_proc(&mut adf, proc_, v);
    let cls: Vec<String> = res.iter().map(|r| classes(r)).collect();
    let raw: Vec<Vec<usize>> = res.iter().map(|r| r.iter().map(|t| t.value()).collect()).collect();
    json!({"result": cls, "raw": raw, "nodes": dump_nodes(&adf.bdd), "sender_alive": sender_alive})
}

/// parse a text natively and return the truth table of every acceptance condition (small n only)
pub fn adf_tables(v: &Value) -> Value {
    let parser = AdfParser::default();
    if parser.parse()(v["text"].as_str().unwrap()).is_err() {
        return json!({"error": "parse"});
    }
    let adf = Adf::from_parser(&parser);
    let n = adf.ac.len();
    if n > 12 {
        return json!({"error": "too large", "n": n});
    }
    let tabs: Vec<Value> = adf.ac.iter().map(|t| table(&adf.bdd, *t, n)).collect();
    json!({"n": n, "tabs": tabs})
}

pub fn iter_cmd(v: &Value) -> Value {
    use adf_bdd::datatypes::adf::{ThreeValuedInterpretationsIterator, TwoValuedInterpretationsIterator};
    let vec: Vec<Term> = v["vec"].as_array().unwrap().iter().map(|x| Term(us(x))).collect();
    let mut it: Box<dyn Iterator<Item = Vec<Term>>> = if v["kind"].as_str() == Some("two") {
        Box::new(TwoValuedInterpretationsIterator::new(&vec))
    } else {
        Box::new(ThreeValuedInterpretationsIterator::new(&vec))
    };
    let mut items = Vec::new();
    let limit = v["limit"].as_u64().unwrap_or(0) as usize;
    while let Some(x) = it.next() {
        items.push(Value::Array(x.iter().map(|t| json!(t.value().to_string())).collect()));
        if limit > 0 && items.len() >= limit {
            return json!({"items": items, "after": [false, false], "truncated": true});
        }
        if items.len() > 100000 {
            return json!({"error": "does not end"});
        }
    }
    let after: Vec<bool> = (0..2).map(|_| it.next().is_some()).collect();
    json!({"items": items, "after": after})
}

fn mcj(m: ModelCounts) -> Value {
    json!([m.cmodels, m.models])
}

pub fn bdd_query(v: &Value) -> Value {
    let n = us(&v["n"]);
    let tabs = tabs_of(&v["tabs"]);
    let fi = us(&v["focus"]);
    let adf = adf_from_tabs(n, &tabs);
    let f = adf.ac[fi];
    let bdd = &adf.bdd;
    let mut cubes = Vec::new();
    if !f.is_truth_value() {
        for goal in [false, true] {
            for gv in 0..=n {
                let res = bdd.interpretations(f, goal, Var(gv), &[], &[]);
                let cs: Vec<Value> = res
                    .iter()
                    .map(|(neg, pos)| json!([neg.iter().map(|x| x.value()).collect::<Vec<_>>(), pos.iter().map(|x| x.value()).collect::<Vec<_>>()]))
                    .collect();
                cubes.push(json!({"goal": goal, "goal_var": gv, "cubes": cs}));
            }
        }
    }
    let mut deps: Vec<usize> = bdd.var_dependencies(f).iter().map(|x| x.value()).collect();
    deps.sort();
    let depth_fresh = bdd.max_depth(f);
    let fc_t = adf.formulacounts(true);
    let fc_f = adf.formulacounts(false);
    json!({
        "handle": f.value(),
        "paths": {"true": mcj(bdd.paths(f, true)), "false": mcj(bdd.paths(f, false))},
        "models": {"true": mcj(bdd.models(f, true)), "false": mcj(bdd.models(f, false))},
        "formulacounts": {"true": mcj(fc_t[fi]), "false": mcj(fc_f[fi])},
        "max_depth": bdd.max_depth(f),
        "max_depth_fresh": depth_fresh,
        "deps": deps,
        "passive": (0..n).map(|x| bdd.passive_var_impact(Var(x), &adf.ac)).collect::<Vec<_>>(),
        "active": (0..n).map(|x| bdd.active_var_impact(Var(x), &adf.ac)).collect::<Vec<_>>(),
        "facet_models": mcj(adf.facet_count(&adf.ac)[fi].0),
        "active_partial": (0..n - 1).map(|x| bdd.active_var_impact(Var(x), &adf.ac[..n - 1])).collect::<Vec<_>>(),
        "passive_partial": (0..n).map(|x| bdd.passive_var_impact(Var(x), &adf.ac[..n - 1])).collect::<Vec<_>>(),
        "cubes": cubes,
        "nodes": dump_nodes(bdd),
    })
}

use adf_bdd::nogoods::{DuplicateElemination, NoGood, NoGoodStore};

fn ng_from(v: usize, a: usize, val: usize) -> NoGood {
    let terms: Vec<Term> = (0..v).map(|i| if (a >> i) & 1 == 1 { Term((val >> i) & 1) } else { Term(10 + i) }).collect();
    NoGood::from_term_vec(&terms)
}

fn ng_read(v: usize, ng: &NoGood) -> Value {
    let und: Vec<Term> = (0..v).map(|i| Term(10 + i)).collect();
    let mut upd = false;
    let r = ng.update_term_vec(&und, &mut upd);
    let mut a = 0usize;
    let mut val = 0usize;
    for (i, t) in r.iter().enumerate() {
        if t.is_truth_value() {
            a |= 1 << i;
            if t.is_true() {
                val |= 1 << i;
            }
        }
    }
    json!([a, val])
}

pub fn ng_cmd(v: &Value) -> Value {
    let nv = us(&v["V"]);
    // "size": the constructor argument (number of arity buckets); by default the number of variables, as the search uses it
    let size = if v["size"].is_null() { nv } else { us(&v["size"]) };
    let mut st = NoGoodStore::new(size as u32);
    let modes = v["modes"].as_array().unwrap();
    for (k, ng) in v["nogoods"].as_array().unwrap().iter().enumerate() {
        let m = modes[k].as_str().unwrap();
        if k == 0 || modes[k - 1] != modes[k] {
            st.set_dup_elem(match m {
                "None" => DuplicateElemination::None,
                "Equiv" => DuplicateElemination::Equiv,
                _ => DuplicateElemination::Subsume,
            });
        }
        st.add_ng(ng_from(nv, us(&ng[0]), us(&ng[1])));
    }
    let (ia, iv) = (us(&v["interp"][0]), us(&v["interp"][1]));
    let interp = ng_from(nv, ia, iv);
    let concl = st.conclusions(&interp).map(|r| ng_read(nv, &r));
    // conclusion_closure is crate-private: its public counterpart is the fixpoint of conclusions()
    let mut cur = Some(interp.clone());
    let mut steps = 0;
    let closure = loop {
        let c = match &cur {
            Some(c) => c.clone(),
            None => break None,
        };
        match st.conclusions(&c) {
            None => break None,
            Some(nx) => {
                if nx == c || steps > 64 {
                    break Some(ng_read(nv, &nx));
                }
                cur = Some(nx);
            }
        }
        steps += 1;
    };
    json!({"conclusions": concl, "closure": closure})
}

/// one step of a bdd script on an existing store (shared by bdd_script-like commands)
fn script_step(bdd: &mut Bdd, handles: &mut Vec<Term>, st: &Value, n: usize) {
    let op = st["op"].as_str().unwrap();
    let h = |k: &str| handles[us(&st[k])];
    let r = match op {
        "shannon" => {
            let bits: Vec<u8> = st["bits"].as_array().unwrap().iter().map(|b| b.as_u64().unwrap() as u8).collect();
            shannon(bdd, &bits, n, 0, 0)
        }
        "variable" => bdd.variable(Var(us(&st["var"]))),
        "constant" => Bdd::constant(st["val"].as_bool().unwrap()),
        "not" => bdd.not(h("a")),
        "and" => bdd.and(h("a"), h("b")),
        "or" => bdd.or(h("a"), h("b")),
        "imp" => bdd.imp(h("a"), h("b")),
        "iff" => bdd.iff(h("a"), h("b")),
        "xor" => bdd.xor(h("a"), h("b")),
        "restrict" => bdd.restrict(h("a"), Var(us(&st["var"])), st["val"].as_bool().unwrap()),
        _ => panic!("unknown op {}", op),
    };
    handles.push(r);
}

/// producer -> relay -> last with a deterministic schedule: the producer runs to completion into a staging channel;
/// before each poll exactly `cut` messages in total have been forwarded from the staging channel to the relay's channel
#[cfg(feature = "frontend")]
pub fn mirror_cmd(v: &Value) -> Value {
    let n = us(&v["n"]);
    let (stage_s, stage_r) = crossbeam_channel::unbounded();
    let (s1, r1) = crossbeam_channel::unbounded();
    let (s2, r2) = crossbeam_channel::unbounded();
    let mut prod = Bdd::with_sender(stage_s);
    let mut relay = Bdd::with_sender_receiver(s2, r1);
    let mut last = Some(Bdd::with_receiver(r2));
    let mut handles = Vec::new();
    for st in v["script"].as_array().unwrap() {
        script_step(&mut prod, &mut handles, st, n);
    }
    let total = prod.nodes.len() - 2;
    let mut forwarded = 0usize;
    let mut polls = Vec::new();
    let dump_opt = |b: &Option<Bdd>| b.as_ref().map(dump_nodes).unwrap_or(Value::Null);
    for pl in v["polls"].as_array().unwrap() {
        let who = pl["who"].as_str().unwrap();
        if who == "drop_last" {
            // the downstream store goes away (its receiver is dropped with it); the relay keeps polling
            last = None;
            continue;
        }
        let cut = if who == "drain" { total } else { us(&pl["cut"]).min(total) };
        while forwarded < cut {
            if let Ok(m) = stage_r.try_recv() {
                s1.send(m).unwrap();
            }
            forwarded += 1;
        }
        if who == "drain" {
            relay.recv(Term(usize::MAX));
            if let Some(l) = last.as_mut() {
                l.recv(Term(usize::MAX));
            }
            continue;
        }
        let term = Term(us(&pl["term"]));
        let ret = if who == "relay" { relay.recv(term) } else { last.as_mut().map(|l| l.recv(term)).unwrap_or(false) };
        polls.push(json!({"ret": ret, "relay": dump_nodes(&relay), "last": dump_opt(&last),
                          "relay_consumed": relay.nodes.len() - 2, "last_consumed": last.as_ref().map(|l| l.nodes.len() - 2).unwrap_or(0)}));
    }
    json!({"producer": dump_nodes(&prod), "polls": polls, "final_relay": dump_nodes(&relay), "final_last": dump_opt(&last)})
}
#[cfg(not(feature = "frontend"))]
pub fn mirror_cmd(_v: &Value) -> Value {
    json!({"error": "frontend feature off"})
}

fn mcs(m: ModelCounts) -> Vec<String> {
    vec![m.cmodels.to_string(), m.models.to_string()]
}

fn api_call(adf: &mut Adf, name: &str, n: usize, v: &Value) -> Value {
    match name {
        "formulacounts" => {
            let mut out: Vec<Vec<String>> = adf.formulacounts(true).into_iter().map(mcs).collect();
            out.extend(adf.formulacounts(false).into_iter().map(mcs));
            json!(out)
        }
        "facet_count" => {
            let ac = adf.ac.clone();
            json!(adf.facet_count(&ac).into_iter().map(|(m, f)| { let mut x = mcs(m); x.push(f.0.to_string()); x.push(f.1.to_string()); x }).collect::<Vec<_>>())
        }
        "counts" => {
            let ac = adf.ac.clone();
            json!(ac.iter().map(|t| {
                let mut x = mcs(adf.bdd.paths(*t, true));
                x.push(adf.bdd.max_depth(*t).to_string());
                x.extend(mcs(adf.bdd.models(*t, false)));
                x
            }).collect::<Vec<_>>())
        }
        "extra_ops" => {
            let a0 = adf.ac[0];
            let a1 = adf.ac[adf.ac.len() - 1];
            let x = adf.bdd.xor(a0, a1);
            let y = adf.bdd.restrict(x, Var(0), true);
            let z = adf.bdd.or(y, a0);
            adf.bdd.restrict(z, Var(n - 1), false);
            adf.bdd.imp(a0, a1);
            adf.bdd.iff(a1, x);
            Value::Null
        }
        other => {
            let (res, _) = run_proc(adf, other, v);
            json!(res.iter().map(|r| classes(r)).collect::<Vec<_>>())
        }
    }
}


/// runs the public operation that consults one specific memo entry and judges its answer against the truth tables (walked natively)
fn run_probe(adf: &mut Adf, p: &Value, n: usize) -> (bool, String) {
    if p.is_null() {
        return (false, String::new());
    }
    let op = p["op"].as_str().unwrap_or("");
    let a = if p["a"].is_null() { Term(0) } else { Term(us(&p["a"])) };
    let tab = |bdd: &Bdd, t: Term| -> Vec<bool> { (0..(1u64 << n)).map(|x| eval(bdd, t, x)).collect() };
    let len = adf.bdd.nodes.len();
    if a.value() >= len {
        return (false, "handle out of range".into());
    }
    let ta = tab(&adf.bdd, a);
    match op {
        "not" | "and" | "or" | "imp" => {
            let b = if op == "not" { a } else { Term(us(&p["b"])) };
            if b.value() >= len { return (false, "handle out of range".into()); }
            let tb = tab(&adf.bdd, b);
            let r = match op { "not" => adf.bdd.not(a), "and" => adf.bdd.and(a, b), "or" => adf.bdd.or(a, b), _ => adf.bdd.imp(a, b) };
            let tr = tab(&adf.bdd, r);
            let want: Vec<bool> = ta.iter().zip(tb.iter()).map(|(x, y)| match op { "not" => !*x, "and" => *x && *y, "or" => *x || *y, _ => !*x || *y }).collect();
            (tr != want, format!("{}({},{}) = {} with table {:?}, expected {:?}", op, a.value(), b.value(), r.value(), tr, want))
        }
        "iff_or_xor" => {
            let b = Term(us(&p["b"]));
            if b.value() >= len { return (false, "handle out of range".into()); }
            let tb = tab(&adf.bdd, b);
            let r1 = adf.bdd.iff(a, b);
            let r2 = adf.bdd.xor(a, b);
            let t1 = tab(&adf.bdd, r1);
            let t2 = tab(&adf.bdd, r2);
            let w1: Vec<bool> = ta.iter().zip(tb.iter()).map(|(x, y)| x == y).collect();
            let w2: Vec<bool> = ta.iter().zip(tb.iter()).map(|(x, y)| x != y).collect();
            (t1 != w1 || t2 != w2, format!("iff/xor({},{}) = {},{}", a.value(), b.value(), r1.value(), r2.value()))
        }
        "restrict" => {
            let v = us(&p["var"]);
            let val = p["val"].as_bool().unwrap();
            let r = adf.bdd.restrict(a, Var(v), val);
            let tr = tab(&adf.bdd, r);
            let want: Vec<bool> = (0..(1usize << n)).map(|x| if v < n { ta[if val { x | (1 << v) } else { x & !(1 << v) }] } else { ta[x] }).collect();
            (tr != want, format!("restrict({},{},{}) = {} with table {:?}, expected {:?}", a.value(), v, val, r.value(), tr, want))
        }
        "renode" => {
            // ask the store for every node it already holds: a complete unique table answers with the existing handle
            let len0 = adf.bdd.nodes.len();
            for i in 2..len0 {
                let nd = adf.bdd.nodes[i];
                let t = adf.bdd.node(nd.var(), nd.lo(), nd.hi());
                if t != Term(i) {
                    return (true, format!("node {} requested again received the new handle {} (duplicate node)", i, t.value()));
                }
            }
            (false, String::new())
        }
        "deps" => {
            let mut d: Vec<usize> = adf.bdd.var_dependencies(a).iter().map(|x| x.value()).collect();
            d.sort();
            let want: Vec<usize> = (0..n).filter(|v| (0..(1usize << n)).any(|x| ta[x] != ta[x ^ (1 << v)])).collect();
            (d != want, format!("var_dependencies({}) = {:?}, support {:?}", a.value(), d, want))
        }
        "counts" => {
            fn walk(bdd: &Bdd, t: Term) -> (usize, usize, usize) {
                if t == Term::BOT { return (1, 0, 0); }
                if t == Term::TOP { return (0, 1, 0); }
                let nd = bdd.nodes[t.value()];
                let l = walk(bdd, nd.lo());
                let h = walk(bdd, nd.hi());
                (l.0 + h.0, l.1 + h.1, l.2.max(h.2) + 1)
            }
            let w = walk(&adf.bdd, a);
            let p_ = adf.bdd.paths(a, true);
            let d = adf.bdd.max_depth(a);
            let m = adf.bdd.models(a, false);
            let sat = ta.iter().filter(|x| **x).count();
            let bad = (p_.cmodels, p_.models, d) != w || m.models * (1 << n) != sat * (m.models + m.cmodels);
            (bad, format!("paths/depth of {} = ({},{},{}), diagram has {:?}; models ({},{}) for {} of {} satisfying", a.value(), p_.cmodels, p_.models, d, w, m.cmodels, m.models, sat, 1 << n))
        }
        _ => (false, String::new()),
    }
}

pub fn adf_history(v: &Value) -> Value {
    let n = us(&v["n"]);
    let tabs = tabs_of(&v["tabs"]);
    let novars = v["novars"].as_bool().unwrap_or(false);
    let mut adf = adf_from_tabs_opt(n, &tabs, novars);
    let mut first: std::collections::HashMap<String, Value> = Default::default();
    let mut repeat_differs = false;
    for c in v["history"].as_array().unwrap() {
        let name = c.as_str().unwrap();
        let r = api_call(&mut adf, name, n, v);
        if let Some(f) = first.get(name) {
            let mut a: Vec<String> = f.as_array().map(|x| x.iter().map(|y| y.to_string()).collect()).unwrap_or_default();
            let mut b: Vec<String> = r.as_array().map(|x| x.iter().map(|y| y.to_string()).collect()).unwrap_or_default();
            a.sort();
            b.sort();
            if a != b {
                repeat_differs = true;
            }
        } else {
            first.insert(name.to_string(), r);
        }
    }
    let fin = v["final"].as_str().unwrap();
    let after = api_call(&mut adf, fin, n, v);
    let (probe_wrong, probe_detail) = run_probe(&mut adf, &v["probe"], n);
    let changed = adf.ac.iter().zip(tabs.iter()).any(|(t, tb)| table(&adf.bdd, *t, n) != json!(tb));
    let mut fresh_adf = adf_from_tabs_opt(n, &tabs, novars);
    let fresh = api_call(&mut fresh_adf, fin, n, v);
    json!({"after": after, "fresh": fresh, "tables_changed": changed, "repeat_differs": repeat_differs, "nodes": dump_nodes(&adf.bdd),
           "probe_wrong": probe_wrong, "probe_detail": probe_detail})
}

fn final_call(adf: &mut Adf, fin: &str, n: usize, v: &Value) -> Value {
    if fin == "post_ops" {
        let a0 = adf.ac[0];
        let a1 = adf.ac[adf.ac.len() - 1];
        let x = adf.bdd.and(a0, a1);
        let y = adf.bdd.xor(a0, a1);
        let z = adf.bdd.restrict(y, Var(0), false);
        let tabstr = |t: Term| -> String { (0..(1u64 << n)).map(|a| if eval(&adf.bdd, t, a) { '1' } else { '0' }).collect() };
        return json!([tabstr(x), tabstr(y), tabstr(z)]);
    }
    api_call(adf, fin, n, v)
}

pub fn adf_persist(v: &Value) -> Value {
    let n = us(&v["n"]);
    let tabs = tabs_of(&v["tabs"]);
    let novars = v["novars"].as_bool().unwrap_or(false);
    let mut adf = adf_from_tabs_opt(n, &tabs, novars);
    for c in v["history"].as_array().unwrap() {
        api_call(&mut adf, c.as_str().unwrap(), n, v);
    }
    let nodes_before = dump_nodes(&adf.bdd);
    let ac_before: Vec<usize> = adf.ac.iter().map(|t| t.value()).collect();
    let mut back: Adf = if v["mode"].as_str() == Some("serde") {
        let text = serde_json::to_string(&adf).expect("export");
        let mut b: Adf = serde_json::from_str(&text).expect("import");
        b.fix_import();
        b
    } else {
        let bdd = Bdd::from(adf.bdd.nodes.clone());
        Adf::from((adf.ordering.clone(), bdd, adf.ac.clone()))
    };
    let nodes_after = dump_nodes(&back.bdd);
    let ac_after: Vec<usize> = back.ac.iter().map(|t| t.value()).collect();
    let fin = v["final"].as_str().unwrap();
    let after = final_call(&mut back, fin, n, v);
    let (probe_wrong, probe_detail) = run_probe(&mut back, &v["probe"], n);
    let mut fresh_adf = adf_from_tabs_opt(n, &tabs, novars);
    let fresh = final_call(&mut fresh_adf, fin, n, v);
    json!({"nodes_before": nodes_before, "nodes_after": nodes_after, "ac_before": ac_before, "ac_after": ac_after,
           "after": after, "fresh": fresh, "nodes_final": dump_nodes(&back.bdd), "probe_wrong": probe_wrong, "probe_detail": probe_detail})
}

use adf_bdd::adfbiodivine::Adf as BdAdf;

fn parse_sorted<'a>(parser: &'a AdfParser<'a>, text: &'a str, sort: &str) -> bool {
    parse_sorted_reuse(parser, text, sort, false)
}

/// `reuse`: the parser object has already been used to build ADFs on both representations before the sort mode is applied
fn parse_sorted_reuse<'a>(parser: &'a AdfParser<'a>, text: &'a str, sort: &str, reuse: bool) -> bool {
    if parser.parse()(text).is_err() {
        return false;
    }
    if reuse {
        let _ = Adf::from_parser(parser);
        if std::panic::catch_unwind(std::panic::AssertUnwindSafe(|| { let _ = BdAdf::from_parser(parser); })).is_err() {
            // labels the biodivine library cannot represent: recorded elsewhere (known finding D8), irrelevant for the reuse history
        }
    }
    match sort {
        "lexi" => {
            parser.varsort_lexi();
        }
        "alphanum" => {
            parser.varsort_alphanum();
        }
        _ => {}
    }
    true
}

fn names_of(adf: &Adf) -> Vec<String> {
    adf.ordering.names().read().unwrap().clone()
}

/// compiles a text into the library's own diagrams: natively, through the biodivine bridge, or through the pre-grounded bridge
pub fn compile_cmd(v: &Value) -> Value {
    let text = v["text"].as_str().unwrap().to_string();
    let parser = AdfParser::default();
    if !parse_sorted(&parser, &text, v["sort"].as_str().unwrap_or("none")) {
        return json!({"error": "parse"});
    }
    let adf = match v["mode"].as_str().unwrap_or("native") {
        "native" => Adf::from_parser(&parser),
        "bridge" => Adf::from_biodivine(&BdAdf::from_parser(&parser)),
        "hybrid" => BdAdf::from_parser(&parser).hybrid_step(),
        "hybrid_noopt" => BdAdf::from_parser(&parser).hybrid_step_opt(false),
        "hybrid_rew" => BdAdf::from_parser_with_stm_rewrite(&parser).hybrid_step(),
        "hybrid_after" => {
            // semantics first, on the same biodivine-based object, then the pre-grounded bridge (the enumerating procedures only on small instances)
            let bd = BdAdf::from_parser(&parser);
            if names_of_parser(&parser) <= 8 {
                bd.stable_bdd_representation();
                bd.stable().count();
                bd.complete().count();
            }
            bd.grounded();
            bd.hybrid_step()
        }
        m => return json!({"error": format!("mode {}", m)}),
    };
    json!({"names": names_of(&adf), "nodes": dump_nodes(&adf.bdd), "ac": adf.ac.iter().map(|t| t.value()).collect::<Vec<_>>()})
}

fn names_of_parser(parser: &AdfParser) -> usize {
    parser.var_container().names().read().unwrap().len()
}

/// a semantics procedure on a text, on the chosen back-end, as the CLI wires them
pub fn sem_text(v: &Value) -> Value {
    let text = v["text"].as_str().unwrap().to_string();
    let parser = AdfParser::default();
    if !parse_sorted_reuse(&parser, &text, v["sort"].as_str().unwrap_or("none"), v["reuse"].as_bool().unwrap_or(false)) {
        return json!({"error": "parse"});
    }
    let backend = v["backend"].as_str().unwrap_or("naive");
    let proc_ = v["proc"].as_str().unwrap();
    let names: Vec<String> = parser.var_container().names().read().unwrap().clone();
    let res: Vec<Vec<Term>> = match backend {
        "biodivine" => {
            let adf = if proc_ == "stmrew" { BdAdf::from_parser_with_stm_rewrite(&parser) } else { BdAdf::from_parser(&parser) };
            match proc_ {
                "grounded" => vec![adf.grounded()],
                "complete" => adf.complete().collect(),
                "stable" => adf.stable().collect(),
                "stmrew" | "stmrew2" => adf.stable_bdd_representation(),
                p => return json!({"error": format!("proc {} on biodivine", p)}),
            }
        }
        "hybrid" | "hybrid_noopt" | "hybrid_rew" => {
            // hybrid_rew: the object the CLI builds for --stmrew (rewriting prepared first), then the bridge, then any procedure
            let bd = if proc_ == "stmrew" || backend == "hybrid_rew" { BdAdf::from_parser_with_stm_rewrite(&parser) } else { BdAdf::from_parser(&parser) };
            let mut adf = if backend != "hybrid_noopt" { bd.hybrid_step() } else { bd.hybrid_step_opt(false) };
            match proc_ {
                "stmrew" | "stmrew2" => adf.stable_bdd_representation(&bd),
                p => run_proc(&mut adf, p, v).0,
            }
        }
        _ => {
            let mut adf = Adf::from_parser(&parser);
            run_proc(&mut adf, proc_, v).0
        }
    };
    json!({"names": names, "result": res.iter().map(|r| classes(r)).collect::<Vec<_>>()})
}

/// bounded channel between producer and relay, real threads: the consumer starts late and polls until the producer is done
#[cfg(feature = "frontend")]
pub fn mirror_bounded(v: &Value) -> Value {
    let n = us(&v["n"]);
    let cap = us(&v["cap"]);
    let (s1, r1) = crossbeam_channel::bounded(cap);
    let (s2, r2) = crossbeam_channel::unbounded();
    let mut prod = Bdd::with_sender(s1);
    let mut relay = Bdd::with_sender_receiver(s2, r1);
    let mut last = Bdd::with_receiver(r2);
    let script = v["script"].clone();
    let worker = std::thread::spawn(move || {
        let mut handles = Vec::new();
        for st in script.as_array().unwrap() {
            script_step(&mut prod, &mut handles, st, n);
        }
        dump_nodes(&prod)
    });
    std::thread::sleep(std::time::Duration::from_millis(40));
    let t0 = std::time::Instant::now();
    while !worker.is_finished() && t0.elapsed().as_secs() < 10 {
        relay.recv(Term(usize::MAX));
        std::thread::yield_now();
    }
    if !worker.is_finished() {
        return json!({"timeout": true});
    }
    let producer = worker.join().unwrap();
    relay.recv(Term(usize::MAX));
    last.recv(Term(usize::MAX));
    json!({"producer": producer, "polls": [], "final_relay": dump_nodes(&relay), "final_last": dump_nodes(&last)})
}
#[cfg(not(feature = "frontend"))]
pub fn mirror_bounded(_v: &Value) -> Value {
    json!({"error": "frontend feature off"})
}

/// the crate's parser on a text: acceptance, statement list, formulas (Debug rendering), formula names
pub fn parse_cmd(v: &Value) -> Value {
    let text = v["text"].as_str().unwrap().to_string();
    let parser = AdfParser::default();
    let ok = parser.parse()(&text).is_ok();
    if !ok {
        return json!({"ok": false});
    }
    let names: Vec<String> = parser.var_container().names().read().unwrap().clone();
    let mut forms = Vec::new();
    let mut i = 0;
    while let Some(f) = parser.ac_at(i) {
        forms.push(format!("{:?}", f));
        i += 1;
    }
    let lookup_ok = names.iter().enumerate().all(|(i, n)| parser.dict_value(n) == Some(i));
    json!({"ok": true, "names": names, "formulas": forms, "lookup_ok": lookup_ok})
}


/// From a unit-level counterexample to a failing input of the public API: statement `pos` has the acceptance condition `tab`;
/// the other statements range over all tables (n <= 3) or over `limit` pseudo-random ones.  Returns the first ADFs on which one of
/// `procs` does not return the same multiset as `reference` (both real procedures of the library; the caller judges each
/// candidate against the definition afterwards).
pub fn completion_search(v: &Value) -> Value {
    let n = us(&v["n"]);
    let pos = us(&v["pos"]);
    let tab: Vec<u8> = v["tab"].as_array().unwrap().iter().map(|b| b.as_u64().unwrap() as u8).collect();
    let procs: Vec<String> = v["procs"].as_array().unwrap().iter().map(|p| p.as_str().unwrap().to_string()).collect();
    let reference = v["reference"].as_str().unwrap_or("stable").to_string();
    let limit = v["limit"].as_u64().unwrap_or(70000);
    let want = v["want"].as_u64().unwrap_or(3) as usize;
    let rows = 1usize << n;
    let free_bits = (n - 1) * rows;
    let exhaustive = free_bits <= 16 && (1u64 << free_bits) <= limit;
    let total = if exhaustive { 1u64 << free_bits } else { limit };
    let mut state: u64 = 0x9E37_79B9_7F4A_7C15 ^ v["seed"].as_u64().unwrap_or(1);
    let mut next = || {
        state ^= state << 13;
        state ^= state >> 7;
        state ^= state << 17;
        state
    };
    let empty = json!({});
    let mut found = Vec::new();
    let mut tried = 0u64;
    for k in 0..total {
        let mut tabs: Vec<Vec<u8>> = Vec::new();
        let mut bitpos = 0;
        for s_ in 0..n {
            if s_ == pos {
                tabs.push(tab.clone());
            } else if exhaustive {
                tabs.push((0..rows).map(|r| ((k >> (bitpos + r)) & 1) as u8).collect());
                bitpos += rows;
            } else {
                let w = next();
                tabs.push((0..rows).map(|r| ((w >> (r % 64)) & 1) as u8).collect());
            }
        }
        tried += 1;
        let run = |p: &str| -> Option<Vec<String>> {
            let tabs2 = tabs.clone();
            let p2 = p.to_string();
            let e2 = empty.clone();
            std::panic::catch_unwind(move || {
                let mut adf = adf_from_tabs(n, &tabs2);
                let (res, _) = run_proc(&mut adf, &p2, &e2);
                let mut cls: Vec<String> = res.iter().map(|r| classes(r)).collect();
                cls.sort();
                cls
            })
            .ok()
        };
        let base = run(&reference);
        for p in &procs {
            let got = run(p);
            if got.is_none() || got != base {
                found.push(json!({"tabs": tabs, "proc": p}));
                break;
            }
        }
        if found.len() >= want {
            break;
        }
    }
    json!({"candidates": found, "tried": tried, "exhaustive": exhaustive})
}


/// a text whose statement i (named s<i>) has the acceptance condition given by truth table i (disjunctive normal form)
pub fn text_from_tabs(n: usize, tabs: &[Vec<u8>]) -> String {
    let mut text = String::new();
    for i in 0..n {
        text.push_str(&format!("s(s{}).\n", i));
    }
    for (i, t) in tabs.iter().enumerate() {
        let rows: Vec<usize> = (0..(1usize << n)).filter(|a| t[*a] != 0).collect();
        let f = if rows.is_empty() {
            "c(f)".to_string()
        } else if rows.len() == (1usize << n) {
            "c(v)".to_string()
        } else {
            let mut disj: Option<String> = None;
            for a in rows {
                let mut conj: Option<String> = None;
                for v_ in 0..n {
                    let lit = if (a >> v_) & 1 == 1 { format!("s{}", v_) } else { format!("neg(s{})", v_) };
                    conj = Some(match conj {
                        None => lit,
                        Some(c) => format!("and({},{})", c, lit),
                    });
                }
                let c = conj.unwrap();
                disj = Some(match disj {
                    None => c,
                    Some(d) => format!("or({},{})", d, c),
                });
            }
            disj.unwrap()
        };
        text.push_str(&format!("ac(s{},{}).\n", i, f));
    }
    text
}

/// the semantics procedures of the biodivine-based Adf ("bio"), and the naive procedures after hybrid_step ("hyb") /
/// hybrid_step_opt(false) ("hybraw"), on the ADF given by truth tables (through the real parser and the real biodivine library)
pub fn backend_sem(n: usize, tabs: &[Vec<u8>], backend: &str, inner: &str, v: &Value) -> Value {
    let text = text_from_tabs(n, tabs);
    let parser = AdfParser::default();
    if parser.parse()(&text).is_err() {
        return json!({"error": "parse"});
    }
    let bio = BdAdf::from_parser(&parser);
    let mut nodes = json!([]);
    let mut sender_alive = false;
    let res: Vec<Vec<Term>> = match backend {
        "bio" => match inner {
            "grounded" => vec![bio.grounded()],
            "complete" => bio.complete().collect(),
            "stable" => bio.stable().collect(),
            "stable_rew" => bio.stable_bdd_representation(),
            "stable_rew_pre" => BdAdf::from_parser_with_stm_rewrite(&parser).stable_bdd_representation(),
            _ => return json!({"error": "proc"}),
        },
        "hyb" | "hybraw" | "hybrew" => {
            let bio = if backend == "hybrew" { BdAdf::from_parser_with_stm_rewrite(&parser) } else { bio };
            let mut adf = if backend != "hybraw" { bio.hybrid_step() } else { bio.hybrid_step_opt(false) };
            let r = if inner == "stable_rew2" {
                adf.stable_bdd_representation(&bio)
            } else {
                let (r, alive) = run_proc(&mut adf, inner, v);
                sender_alive = alive;
                r
            };
            nodes = dump_nodes(&adf.bdd);
            r
        }
        _ => return json!({"error": "backend"}),
    };
    let cls: Vec<String> = res.iter().map(|r| classes(r)).collect();
    let raw: Vec<Vec<usize>> = res.iter().map(|r| r.iter().map(|t| t.value()).collect()).collect();
    json!({"result": cls, "raw": raw, "nodes": nodes, "sender_alive": sender_alive, "text": text})
}


/// the naive store produced by the real bridge (real biodivine) for the ADF given by truth tables: node table, root handles and the
/// function of every root
pub fn bridge_store(v: &Value) -> Value {
    let n = us(&v["n"]);
    let tabs = tabs_of(&v["tabs"]);
    let text = text_from_tabs(n, &tabs);
    let parser = AdfParser::default();
    if parser.parse()(&text).is_err() {
        return json!({"error": "parse"});
    }
    let bio = BdAdf::from_parser(&parser);
    for h in v["history"].as_array().cloned().unwrap_or_default() {
        match h.as_str().unwrap_or("") {
            "grounded" => { bio.grounded(); }
            "complete" => { bio.complete().count(); }
            "stable" => { bio.stable().count(); }
            "stable_rew" => { bio.stable_bdd_representation(); }
            other => panic!("history step {}", other),
        }
    }
    let adf = if v["pregrounded"].as_bool().unwrap_or(false) { bio.hybrid_step() } else { bio.hybrid_step_opt(false) };
    let roots: Vec<usize> = adf.ac.iter().map(|t| t.value()).collect();
    let tables: Vec<Value> = adf.ac.iter().map(|t| table(&adf.bdd, *t, n)).collect();
    json!({"nodes": dump_nodes(&adf.bdd), "roots": roots, "tables": tables, "text": text})
}
