use crate::*;

pub fn dispatch(v: &Value) -> Value {
    match v["cmd"].as_str().unwrap_or("") {
        "bdd_script" => bdd_script(v),
        "features" => json!({
            "adhoccounting": cfg!(feature = "adhoccounting"),
            "adhoccountmodels": cfg!(feature = "adhoccountmodels"),
            "variablelist": cfg!(feature = "variablelist"),
            "frontend": cfg!(feature = "frontend"),
        }),
        other => json!({"error": format!("unknown cmd {}", other)}),
    }
}

fn us(v: &Value) -> usize {
    if let Some(s) = v.as_str() {
        s.parse::<usize>().unwrap()
    } else {
        v.as_u64().unwrap() as usize
    }
}

/// executes a script of diagram operations on one store; reports handle + full node table after each step
pub fn bdd_script(v: &Value) -> Value {
    let n = us(&v["n"]);
    let mut bdd = Bdd::new();
    let mut handles: Vec<Term> = Vec::new();
    let mut steps_out = Vec::new();
    for st in v["steps"].as_array().unwrap() {
        let op = st["op"].as_str().unwrap();
        let h = |k: &str| handles[us(&st[k])];
        let r = match op {
            "shannon" => {
                let bits: Vec<u8> = st["bits"].as_array().unwrap().iter().map(|b| b.as_u64().unwrap() as u8).collect();
                shannon(&mut bdd, &bits, n, 0, 0)
            }
            "variable" => bdd.variable(Var(us(&st["var"]))),
            "constant" => Bdd::constant(st["val"].as_bool().unwrap()),
            "node" => bdd.node(Var(us(&st["var"])), h("a"), h("b")),
            "not" => bdd.not(h("a")),
            "and" => bdd.and(h("a"), h("b")),
            "or" => bdd.or(h("a"), h("b")),
            "imp" => bdd.imp(h("a"), h("b")),
            "iff" => bdd.iff(h("a"), h("b")),
            "xor" => bdd.xor(h("a"), h("b")),
            "restrict" => bdd.restrict(h("a"), Var(us(&st["var"])), st["val"].as_bool().unwrap()),
            "reimport" => {
                // rebuild the store from its own node list (database path of the web service)
                let nodes = bdd.nodes.clone();
                bdd = Bdd::from(nodes);
                Term(0)
            }
            _ => panic!("unknown op {}", op),
        };
        handles.push(r);
        steps_out.push(json!({"h": r.value(), "nodes": bdd.nodes.len(), "table": table(&bdd, r, n)}));
    }
    let tables: Vec<Value> = handles.iter().map(|h| table(&bdd, *h, n)).collect();
    json!({"steps": steps_out, "nodes": dump_nodes(&bdd), "final_tables": tables})
}
