//! Native replay / differential driver: executes JSON commands (one per line on stdin) against the real
//! adf_bdd library built from /repo's current tree and prints one JSON result per line.
use adf_bdd::datatypes::*;
use adf_bdd::obdd::Bdd;
use serde_json::{json, Value};
use std::io::{BufRead, Write};

mod cmds;
#[cfg(feature = "server_dto")]
#[path = "gen/double_labeled_graph.rs"]
mod double_labeled_graph;
#[cfg(feature = "server_dto")]
#[path = "gen/server_dto.rs"]
mod server_dto;
#[cfg(feature = "server_dto")]
mod server_cmds;

pub fn dump_nodes(bdd: &Bdd) -> Value {
    Value::Array(
        bdd.nodes
            .iter()
            .map(|n| json!([n.var().value().to_string(), n.lo().value(), n.hi().value()]))
            .collect(),
    )
}

pub fn eval(bdd: &Bdd, t: Term, asg: u64) -> bool {
    let mut cur = t;
    loop {
        if cur.is_truth_value() {
            return cur.is_true();
        }
        let n = bdd.nodes[cur.value()];
        cur = if (asg >> n.var().value()) & 1 == 1 { n.hi() } else { n.lo() };
    }
}

pub fn table(bdd: &Bdd, t: Term, n: usize) -> Value {
    Value::Array((0..(1u64 << n)).map(|a| json!(eval(bdd, t, a) as u8)).collect())
}

pub fn shannon(bdd: &mut Bdd, bits: &[u8], n: usize, var: usize, idx: usize) -> Term {
    if var == n {
        return Term::from(bits[idx] != 0);
    }
    let lo = shannon(bdd, bits, n, var + 1, idx);
    let hi = shannon(bdd, bits, n, var + 1, idx | (1 << var));
    bdd.node(Var(var), lo, hi)
}

fn main() {
    let stdin = std::io::stdin();
    let stdout = std::io::stdout();
    for line in stdin.lock().lines() {
        let line = line.unwrap();
        if line.trim().is_empty() {
            continue;
        }
        let v: Value = serde_json::from_str(&line).expect("json");
        let res = std::panic::catch_unwind(|| cmds::dispatch(&v));
        let out = match res {
            Ok(r) => r,
            Err(e) => {
                let msg = if let Some(s) = e.downcast_ref::<String>() {
                    s.clone()
                } else if let Some(s) = e.downcast_ref::<&str>() {
                    s.to_string()
                } else {
                    "panic".to_string()
                };
                json!({"panic": msg})
            }
        };
        let mut o = stdout.lock();
        writeln!(o, "{}", out).unwrap();
        o.flush().unwrap();
    }
}
