"""Builds everything a check derives from /repo's current working tree: MIR dumps and the native replay binary."""
import os, subprocess, sys, time, glob, shutil, json, fcntl, hashlib

REPO = os.environ.get('VERIF_REPO', '/repo')
VERIF = os.path.dirname(os.path.dirname(os.path.abspath(__file__)))
CACHE = os.path.join(VERIF, '.cache')
ENV = dict(os.environ, CARGO_NET_OFFLINE='true')

DEFAULT_FEATURES = ('adhoccounting', 'variablelist', 'frontend')
IMPLIED = {'variablelist': ['HashSet'], 'adhoccountmodels': ['adhoccounting'], 'benchmark': ['adhoccounting', 'variablelist']}


def closure(features):
    out = set(features); ch = True
    while ch:
        ch = False
        for f in list(out):
            for g in IMPLIED.get(f, []):
                if g not in out: out.add(g); ch = True
    return tuple(sorted(out))


def fkey(features): return '+'.join(sorted(features)) or 'none'


class Lock:
    def __init__(self, name):
        os.makedirs(CACHE, exist_ok=True)
        self.path = os.path.join(CACHE, name + '.lock')
    def __enter__(self):
        self.f = open(self.path, 'w'); fcntl.flock(self.f, fcntl.LOCK_EX); return self
    def __exit__(self, *a):
        fcntl.flock(self.f, fcntl.LOCK_UN); self.f.close()


def src_digest(sub='lib'):
    h = hashlib.sha256()
    for p in sorted(glob.glob(os.path.join(REPO, sub, '**', '*'), recursive=True)):
        if os.path.isfile(p) and '/target/' not in p:
            h.update(p.encode()); h.update(open(p, 'rb').read())
    return h.hexdigest()[:16]


def dump_mir(features=DEFAULT_FEATURES, package='adf_bdd', target='--lib'):
    """rustc MIR of the crate, regenerated from the working tree on every call"""
    t = time.time()
    tdir = os.path.join(CACHE, 'target-mir')
    with Lock('mir'):
        for d in glob.glob(os.path.join(tdir, 'debug', '.fingerprint', package.replace('-', '_') + '-*')) + \
                 glob.glob(os.path.join(tdir, 'debug', '.fingerprint', package + '-*')):
            shutil.rmtree(d, ignore_errors=True)
        cmd = ['cargo', '+nightly', 'rustc', '--offline', '-p', package] + target.split() + ['--no-default-features']
        if features: cmd += ['--features', ','.join(features)]
        cmd += ['--', '-Zunpretty=mir', '-C', 'debug-assertions=off', '-C', 'overflow-checks=on', '-Awarnings']
        p = subprocess.run(cmd, cwd=REPO, env=dict(ENV, CARGO_TARGET_DIR=tdir), capture_output=True, text=True)
        if p.returncode != 0 or 'fn ' not in p.stdout:
            sys.stderr.write(p.stderr[-3000:])
            raise RuntimeError('MIR dump failed for features %s' % (features,))
        # rustc's MIR pretty-printer names closure captures by variable and silently drops operands when one
        # variable is captured by several disjoint fields; the stable-MIR printer lists every operand.
        for d in glob.glob(os.path.join(tdir, 'debug', '.fingerprint', package.replace('-', '_') + '-*')) + \
                 glob.glob(os.path.join(tdir, 'debug', '.fingerprint', package + '-*')):
            shutil.rmtree(d, ignore_errors=True)
        cmd2 = [('-Zunpretty=stable-mir' if c == '-Zunpretty=mir' else c) for c in cmd]
        p2 = subprocess.run(cmd2, cwd=REPO, env=dict(ENV, CARGO_TARGET_DIR=tdir), capture_output=True, text=True)
        if p2.returncode != 0 or 'fn ' not in p2.stdout:
            sys.stderr.write(p2.stderr[-3000:])
            raise RuntimeError('stable-MIR dump failed for features %s' % (features,))
    import re
    closures = {}
    for m in re.finditer(r'^\s+_\d+ = \{closure@([^}]*)\}\((.*)\);$', p2.stdout, re.M):
        closures[m.group(1)] = m.group(2)
    return (p.stdout, closures), time.time() - t


def crate_dir(name):
    """the harness crates name /repo/lib as a path dependency; for another checkout (VERIF_REPO) a copy with the path rewritten is used"""
    src = os.path.join(VERIF, name)
    if REPO == '/repo':
        shutil.copyfile(os.path.join(REPO, 'Cargo.lock'), os.path.join(src, 'Cargo.lock'))
        return src
    dst = os.path.join(CACHE, '%s-%s' % (name, hashlib.sha1(REPO.encode()).hexdigest()[:8]))
    if os.path.exists(dst): shutil.rmtree(dst)
    shutil.copytree(src, dst, ignore=shutil.ignore_patterns('target', 'Cargo.lock'))
    t = open(os.path.join(dst, 'Cargo.toml')).read().replace('path = "/repo/lib"', 'path = "%s/lib"' % REPO)
    open(os.path.join(dst, 'Cargo.toml'), 'w').write(t)
    shutil.copyfile(os.path.join(REPO, 'Cargo.lock'), os.path.join(dst, 'Cargo.lock'))
    return dst


def gen_server_sources(crate):
    """C16: the server crate is a binary, so its pure kernels are compiled into the replay crate from the *source text* of /repo/server:
    double_labeled_graph.rs verbatim, and the database DTOs (VarContainerDb, BddNodeDb, SimplifiedAdf + From impls) cut out of adf.rs"""
    import re
    gen = os.path.join(crate, 'src', 'gen'); os.makedirs(gen, exist_ok=True)
    shutil.copyfile(os.path.join(REPO, 'server/src/double_labeled_graph.rs'), os.path.join(gen, 'double_labeled_graph.rs'))
    txt = open(os.path.join(REPO, 'server/src/adf.rs')).read()
    i = txt.find('#[derive(Clone, Deserialize, Serialize)]\npub(crate) struct VarContainerDb')
    j = txt.find('type SimplifiedAdfOpt')
    if i < 0 or j < 0 or j < i: raise RuntimeError('cannot locate the database DTOs in server/src/adf.rs')
    pre = ('// generated from server/src/adf.rs - do not edit\n#![allow(unused)]\nuse std::collections::{HashMap, HashSet};\nuse std::sync::{Arc, RwLock};\n'
           'use adf_bdd::datatypes::adf::VarContainer;\nuse adf_bdd::datatypes::{BddNode, Term, Var};\nuse serde::{Deserialize, Serialize};\n'
           'use adf_bdd::adf::Adf;\nuse adf_bdd::obdd::Bdd;\ntype AcDb = Vec<String>;\n')
    open(os.path.join(gen, 'server_dto.rs'), 'w').write(pre + txt[i:j] + gen_server_handlers(txt))


def _cut_item(txt, header_re, what):
    """the item whose header matches, with the attribute lines in front of it, up to its closing brace"""
    import re
    m = re.search(header_re, txt, re.M)
    if not m: raise RuntimeError('cannot locate %s in the server sources' % what)
    start = m.start()
    while True:      # attributes / derives directly in front
        prev_end = txt.rfind('\n', 0, start - 1)
        line = txt[prev_end + 1:start - 1] if start > 0 else ''
        if line.strip().startswith('#['): start = prev_end + 1
        else: break
    i = txt.index('{', m.end() - 1); depth = 0
    for k in range(i, len(txt)):
        if txt[k] == '{': depth += 1
        elif txt[k] == '}':
            depth -= 1
            if depth == 0: return txt[start:k + 1] + '\n'
    raise RuntimeError('unbalanced braces in %s' % what)


def _closure_body(txt, fn_name):
    """body of the synchronous closure handed to spawn_blocking inside the request handler fn_name"""
    import re
    m = re.search(r'async fn %s\b' % fn_name, txt)
    if not m: raise RuntimeError('cannot locate handler %s' % fn_name)
    m2 = re.compile(r'spawn_blocking\(\s*move\s*\|\|\s*(->[^{;]*)?\{').search(txt, m.end())
    nxt = re.compile(r'\nasync fn ').search(txt, m.end())
    if not m2 or (nxt and m2.start() > nxt.start()): raise RuntimeError('no spawn_blocking closure in handler %s' % fn_name)
    i = m2.end() - 1; depth = 0
    for k in range(i, len(txt)):
        if txt[k] == '{': depth += 1
        elif txt[k] == '}':
            depth -= 1
            if depth == 0: return (m2.group(1) or '') + txt[i:k + 1]
    raise RuntimeError('unbalanced braces in handler %s' % fn_name)


def gen_server_handlers(txt):
    """C16, handler closures: the synchronous closures that add_adf_problem / solve_adf_problem hand to spawn_blocking (parse + compile + picture;
    rebuild from the stored form + strategy dispatch + pictures; both with the running-task bookkeeping) are cut out of server/src/adf.rs and wrapped into
    ordinary functions over a stub AppState that has the same `currently_running` field; likewise AdfProblemInfo::from_adf_prob_and_tasks."""
    cfg = open(os.path.join(REPO, 'server/src/config.rs')).read()
    parts = ['\n// ---- handler closures, generated from server/src/adf.rs and server/src/config.rs\n',
             'use std::sync::Mutex;\nuse adf_bdd::adfbiodivine::Adf as BdAdf;\nuse adf_bdd::parser::AdfParser;\nuse crate::double_labeled_graph::DoubleLabeledGraph;\ntype Ac = Vec<Term>;\n']
    for rx, what in ((r'^pub\(crate\) enum Parsing\b', 'enum Parsing'), (r'^pub\(crate\) enum Strategy\b', 'enum Strategy'), (r'^pub\(crate\) struct AcAndGraph\b', 'struct AcAndGraph'),
                     (r'^pub\(crate\) enum OptionWithError\b', 'enum OptionWithError'), (r'^impl<T> OptionWithError<T> \{', 'impl OptionWithError'),
                     (r'^pub\(crate\) struct AcsPerStrategy\b', 'struct AcsPerStrategy'), (r'^pub\(crate\) struct AdfProblem\b', 'struct AdfProblem'),
                     (r'^struct AddAdfProblemBodyPlain\b', 'struct AddAdfProblemBodyPlain'), (r'^struct AdfProblemInfo\b', 'struct AdfProblemInfo'),
                     (r'^impl AdfProblemInfo \{', 'impl AdfProblemInfo'), (r'^struct SolveAdfProblemBody\b', 'struct SolveAdfProblemBody')):
        parts.append(_cut_item(txt, rx, what))
    # inherent impl blocks of the cut types (a maintainer may move a closure's body into a method)
    import re as _re
    for nm in ('AddAdfProblemBodyPlain', 'SolveAdfProblemBody', 'AcAndGraph', 'AdfProblem', 'AcsPerStrategy'):
        for m in _re.finditer(r'^impl %s \{' % nm, txt, _re.M):
            i = txt.index('{', m.start()); depth = 0
            for k in range(i, len(txt)):
                if txt[k] == '{': depth += 1
                elif txt[k] == '}':
                    depth -= 1
                    if depth == 0: parts.append(txt[m.start():k + 1] + '\n'); break
    parts.append('type AcsAndGraphsOpt = OptionWithError<Vec<AcAndGraph>>;\ntype SimplifiedAdfOpt = OptionWithError<SimplifiedAdf>;\n')
    for rx, what in ((r'^pub\(crate\) enum Task\b', 'enum Task'), (r'^pub\(crate\) struct RunningInfo\b', 'struct RunningInfo')):
        parts.append(_cut_item(cfg, rx, what))
    parts.append('pub(crate) struct AppState { pub(crate) currently_running: Mutex<HashSet<RunningInfo>> }\n')
    parts.append('pub(crate) fn add_closure(app_state: Arc<AppState>, username: String, problem_name: String, code: String, parsing: Parsing) '
                 '-> Result<(SimplifiedAdf, AcAndGraph), &\'static str> {\n    let username_clone = username.clone();\n    let problem_name_clone = problem_name.clone();\n    let adf_problem_input = AddAdfProblemBodyPlain { name: problem_name.clone(), code, parsing };\n'
                 '    (move || ' + _closure_body(txt, 'add_adf_problem') + ')()\n}\n')
    parts.append('pub(crate) fn solve_closure(app_state: Arc<AppState>, running_info: RunningInfo, simp_adf: SimplifiedAdf, strategy: Strategy) -> Vec<AcAndGraph> {\n    let adf_problem_input = SolveAdfProblemBody { strategy };\n'
                 '    let username = running_info.username.clone();\n    let problem_name = running_info.adf_name.clone();\n    let username_clone = username.clone();\n    let problem_name_clone = problem_name.clone();\n'
                 '    (move || ' + _closure_body(txt, 'solve_adf_problem') + ')()\n}\n')
    parts.append('pub(crate) fn running_tasks_of(adf: AdfProblem, tasks: &HashSet<RunningInfo>) -> Vec<Task> { AdfProblemInfo::from_adf_prob_and_tasks(adf, tasks).running_tasks }\n')
    return ''.join(parts)


def build_native(features=DEFAULT_FEATURES, release=False, extra=()):
    """native replay binary against /repo/lib as it is now (one shared target dir, one copied binary per feature set)"""
    t = time.time()
    key = fkey([f for f in features if f != 'HashSet'] + list(extra)) + ('-rel' if release else '')
    tdir = os.path.join(CACHE, 'target-replay')
    bindir = os.path.join(CACHE, 'bin'); os.makedirs(bindir, exist_ok=True)
    dest = os.path.join(bindir, 'verif_replay-%s-%d' % (key, os.getpid()))
    lock_src = os.path.join(REPO, 'Cargo.lock')
    with Lock('native'):
        crate = crate_dir('replay')
        cmd = ['cargo', 'build', '--offline', '--no-default-features']
        fl = [f for f in features if f != 'HashSet'] + list(extra)
        if 'server_dto' in extra: gen_server_sources(crate)
        if fl: cmd += ['--features', ','.join(fl)]
        if release: cmd += ['--release']
        p = subprocess.run(cmd, cwd=crate, env=dict(ENV, CARGO_TARGET_DIR=tdir, RUSTFLAGS='-Awarnings'),
                           capture_output=True, text=True)
        if p.returncode != 0:
            sys.stderr.write(p.stderr[-4000:])
            raise RuntimeError('native replay build failed')
        shutil.copyfile(os.path.join(tdir, 'release' if release else 'debug', 'verif_replay'), dest)
        os.chmod(dest, 0o755)
    return dest, time.time() - t


class Native:
    """line-oriented JSON conversation with the replay binary"""
    def __init__(self, path, timeout=20):
        self.path = path; self.timeout = timeout; self.p = None
    def start(self):
        self.p = subprocess.Popen([self.path], stdin=subprocess.PIPE, stdout=subprocess.PIPE, stderr=subprocess.DEVNULL, text=True, bufsize=1)
    def call(self, cmd, timeout=None):
        import select
        if self.p is None or self.p.poll() is not None: self.start()
        self.p.stdin.write(json.dumps(cmd) + '\n'); self.p.stdin.flush()
        r, _, _ = select.select([self.p.stdout], [], [], timeout or self.timeout)
        if not r:
            self.p.kill(); self.p = None
            return {'timeout': True}
        line = self.p.stdout.readline()
        if not line:
            self.p = None
            return {'crash': True}
        return json.loads(line)
    def close(self):
        if self.p is not None:
            try: self.p.stdin.close(); self.p.wait(timeout=5)
            except Exception: self.p.kill()
            self.p = None
        try: os.unlink(self.path)
        except OSError: pass
