"""developer helper: run one harness job list quickly against the cached default MIR"""
import sys, time, json, collections
sys.path.insert(0, '/verif')
from mirse import runner
from mirse.runner import Job
import importlib
def main():
    mir = open('/verif/.cache/lib.default.mir').read()
    from mirse import models_ng, models_chan
    eng = runner.make_engine(mir, '/repo', features=('adhoccounting', 'variablelist', 'frontend', 'HashSet'), extra_models=(models_ng, models_chan))
    runner.register_engine('default', eng)
    mod = importlib.import_module(sys.argv[1])
    tier = sys.argv[2] if len(sys.argv) > 2 else 'quick'
    prop = sys.argv[3] if len(sys.argv) > 3 else 'C07'
    only = sys.argv[4] if len(sys.argv) > 4 else None
    jobs = mod.make_jobs(Job, tier, 1, prop)
    if only: jobs = [j for j in jobs if only in j.name]
    t = time.time()
    res, agg = runner.run_jobs(jobs, progress=[time.time()])
    for r in res:
        print(r.job.name, dict(r.status), 'viol', len(r.violations), 'maxsteps', r.max_steps_seen, dict(r.panics) if r.panics else '')
        for er in r.errors[:2]: print('   ERR', er[:1500])
        for v in r.violations[:2]: print('   V', json.dumps(v, default=str)[:600])
    print('paths', sum(r.paths for r in res), 'wall %.1f' % (time.time() - t), {k: (round(v, 1) if isinstance(v, float) else v) for k, v in agg.items() if k not in ('fn_hits', 'model_hits')})
    print('fns', len(agg['fn_hits']), 'models', dict(agg['model_hits']))
main()
