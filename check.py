#!/usr/bin/env python3
"""check.py <Cxx> [--tier quick|thorough] [--replay <file>]

Decides one property of /repo's current working tree by bounded symbolic execution of its MIR (mirse + z3),
replays every counterexample against the native library, consults known_findings.json, writes
evidence/<id>.json.  Exit 0 = held on everything explored, 1 = VIOLATION (printed), 2 = inconclusive.
"""
import sys, os, json, time, argparse, importlib, hashlib, collections, traceback
HERE = os.path.dirname(os.path.abspath(__file__))
sys.path.insert(0, HERE)
OUT = os.environ.get('VERIF_OUT_DIR', HERE)      # evidence/ and replays/ (redirected when a seeded change is being tried)
from vlib import build
from mirse import runner
from mirse.runner import Job

PROPS = {
    'C01': 'harness.c01', 'C02': 'harness.c02', 'C03': 'harness.c03', 'C04': 'harness.c04', 'C05': 'harness.c05',
    'C06': 'harness.c06', 'C07': 'harness.c07', 'C09': 'harness.c09', 'C10': 'harness.c10', 'C11': 'harness.c11',
    'C12': 'harness.c12', 'C13': 'harness.c13', 'C14': 'harness.c14', 'C18': 'harness.c18', 'C19': 'harness.c19',
    'C20': 'harness.c20', 'C08': 'harness.c08', 'C16': 'harness.c16', 'C15': 'harness.c15',
}


class Ctx:
    def __init__(self, prop, tier, seed):
        self.prop = prop; self.tier = tier; self.seed = seed
        self.natives = {}; self.mir_s = 0.0; self.native_s = 0.0
        self.engines = {}
        self.notes = []

    def engine(self, features=build.DEFAULT_FEATURES, key=None, package='adf_bdd', target='--lib', src_globs=('lib/src/**/*.rs',)):
        key = key or ('default' if build.fkey(features) == build.fkey(build.DEFAULT_FEATURES) and package == 'adf_bdd' else package + ':' + build.fkey(features))
        if key not in self.engines:
            mir, dt = build.dump_mir(features, package, target)
            self.mir_s += dt
            from mirse import models_ng, models_chan, models_misc, models_nom, models_bio, models_cli
            eng = runner.make_engine(mir, build.REPO, features=build.closure(features), src_globs=src_globs,
                                     extra_models=(models_ng, models_chan, models_misc, models_nom, models_bio, models_cli))
            runner.register_engine(key, eng)
            self.engines[key] = eng
        return key

    def engine_multi(self, key, parts, src_globs, features=build.DEFAULT_FEATURES):
        """one engine over the MIR of several crates (library + server binary)"""
        if key not in self.engines:
            texts = []; closures = {}
            for package, target, feats in parts:
                (mir, cl), dt = build.dump_mir(feats, package, target)
                self.mir_s += dt; texts.append(mir); closures.update(cl)
            from mirse import models_ng, models_chan, models_misc, models_bio, models_cli
            eng = runner.make_engine(('\n'.join(texts), closures), build.REPO, features=build.closure(features), src_globs=src_globs,
                                     extra_models=(models_ng, models_chan, models_misc, models_bio, models_cli))
            runner.register_engine(key, eng)
            self.engines[key] = eng
        return key

    def native(self, features=build.DEFAULT_FEATURES, release=False, extra=()):
        k = (build.fkey(features), release, tuple(extra))
        if k not in self.natives:
            path, dt = build.build_native(features, release, extra)
            self.native_s += dt
            self.natives[k] = build.Native(path)
        return self.natives[k]

    def close(self):
        for n in self.natives.values(): n.close()
        b = getattr(self, '_cli_bin', None)
        if b:
            try: os.unlink(b)
            except OSError: pass


def load_findings():
    p = os.path.join(HERE, 'known_findings.json')
    if not os.path.exists(p): return {'findings': [], 'fixed': []}
    return json.load(open(p))


def main():
    ap = argparse.ArgumentParser()
    ap.add_argument('prop')
    ap.add_argument('--tier', default=os.environ.get('VERIF_TIER', 'quick'))
    ap.add_argument('--replay', default=None)
    ap.add_argument('--only', default=None, help='developer: run only jobs whose name contains this')
    args = ap.parse_args()
    prop = args.prop.upper(); tier = args.tier if args.tier in ('quick', 'thorough') else 'quick'
    seed = int(os.environ.get('VERIF_SEED', '1') or 1)
    t0 = time.time()
    mod = importlib.import_module(PROPS[prop])
    ctx = Ctx(prop, tier, seed)
    try:
        if args.replay:
            rec = json.load(open(args.replay))
            status, detail = mod.replay(ctx, rec['violation'])
            print(json.dumps({'status': status, 'detail': detail}, indent=1, default=str))
            sys.exit(1 if status == 'reproduced' else 0)
        rc = run_check(mod, ctx, prop, tier, seed, t0, args)
    finally:
        ctx.close()
    sys.exit(rc)


def run_custom(mod, ctx, prop, tier, seed, t0, args):
    """properties decided by z3 on real outputs (translation validation): the module does exploration + native confirmation itself"""
    r = mod.custom_run(ctx, tier, seed)
    findings = load_findings()
    known = {(f['property'], f['key']): f for f in findings.get('findings', [])}
    new_viol = []; known_hit = []
    for k, v, detail in r['confirmed']:
        if (prop, k) in known: known_hit.append((k, known[(prop, k)]))
        else: new_viol.append((k, v, detail))
    for k, f in known_hit: print('KNOWN-FINDING: property=%s %s' % (prop, f.get('what', k)))
    os.makedirs(os.path.join(OUT, 'replays'), exist_ok=True)
    for k, v, detail in new_viol[:40]:
        h = hashlib.sha1(k.encode()).hexdigest()[:10]
        path = os.path.join(OUT, 'replays', '%s-%s.json' % (prop, h))
        json.dump({'property': prop, 'key': k, 'violation': v, 'native': detail, 'rerun': 'python3-vt /verif/check.py %s --replay %s' % (prop, path)}, open(path, 'w'), indent=1, default=str)
        print('VIOLATION property=%s replay=%s' % (prop, path))
        print('   what: %s | %s' % (v.get('kind'), str(v.get('what'))[:300]))
    cov = r['coverage']
    cov['known_findings_hit'] = [k for k, _ in known_hit]
    cov['inconclusive'] = r.get('inconclusive', [])
    cov['encoding_source'] = 'native library built from %s working tree this run (%.1fs); MIR dump %.1fs' % (build.REPO, ctx.native_s, ctx.mir_s)
    ev = {'property_id': prop, 'tier': tier, 'seed': seed, 'level': r['level'], 'coverage': cov, 'assumptions': r.get('assumptions', []),
          'wall_s': round(time.time() - t0, 1), 'violations': len(new_viol)}
    os.makedirs(os.path.join(OUT, 'evidence'), exist_ok=True)
    json.dump(ev, open(os.path.join(OUT, 'evidence', prop + '.json'), 'w'), indent=1, default=str)
    print('%s tier=%s seed=%d: %s in %.1fs' % (prop, tier, seed, r.get('summary', ''), time.time() - t0))
    if new_viol: return 1
    if r.get('inconclusive'):
        for m in r['inconclusive']: print('INCONCLUSIVE: ' + m)
        return 2
    return 0


def run_check(mod, ctx, prop, tier, seed, t0, args):
    if hasattr(mod, 'custom_run'): return run_custom(mod, ctx, prop, tier, seed, t0, args)
    spec = mod.spec(ctx, tier, seed)
    jobs = spec['jobs']
    if args.only: jobs = [j for j in jobs if args.only in j.name or j.canary]
    inconclusive = []
    # ---- engine validation: concrete differential runs, native library vs. mirse
    t = time.time()
    try:
        nval, mism = mod.validate(ctx, tier, seed)
    except Exception as ex:
        nval, mism = 0, ['engine validation crashed: %r\n%s' % (ex, traceback.format_exc(limit=8))]
    val_s = time.time() - t
    if mism:
        inconclusive.append('engine validation: %d mismatches between mirse and the native library, first: %s' % (len(mism), mism[0]))
    # ---- symbolic exploration
    deadline = spec.get('deadline_s')
    results, agg = runner.run_jobs(jobs, deadline_s=deadline, progress=[time.time()] if os.environ.get('VERIF_PROGRESS') else None)
    if agg['timed_out']: inconclusive.append('exploration deadline of %ss exceeded' % deadline)
    paths = sum(r.paths for r in results if not r.job.canary)
    status = collections.Counter()
    allow = set(spec.get('allowed_status', ('ok',)))
    canary_ok = True; canary_seen = False
    violations = []
    for r in results:
        if r.job.canary:
            canary_seen = True
            if not r.violations:
                canary_ok = False
                inconclusive.append('canary %s did not raise a violation (vacuous harness?) %s' % (r.job.name, r.errors[:1]))
            continue
        status.update(r.status)
        for s_, c in r.status.items():
            if s_ not in allow and s_ != 'infeasible':
                msg = r.errors[0] if r.errors else (list(r.panics)[0] if r.panics else '')
                inconclusive.append('job %s: %d paths ended %s: %s' % (r.job.name, c, s_, msg[:1500]))
        for e_ in r.errors:
            if e_.startswith('path budget'): inconclusive.append('job %s: %s' % (r.job.name, e_))
        for v in r.violations:
            v['job'] = r.job.name; violations.append(v)
    nontrivial = sum(1 for r in results if not r.job.canary and r.paths >= 2)
    if not canary_seen: inconclusive.append('no canary registered')
    if paths < 2: inconclusive.append('fewer than 2 completed paths')
    # ---- replay before reporting
    findings = load_findings()
    known = {(f['property'], f['key']): f for f in findings.get('findings', [])}
    by_key = collections.OrderedDict()
    for v in violations:
        k = mod.key(v)
        by_key.setdefault(k, v)
    new_viol = []; known_hit = []; not_repro = []
    replay_cap = spec.get('replay_cap', 40)
    max_reported = spec.get('max_reported', 12)
    for i, (k, v) in enumerate(by_key.items()):
        if i >= replay_cap or len(new_viol) >= max_reported: break      # enough confirmed violations to report; the rest is counted, not replayed
        try:
            st, detail = mod.replay(ctx, v)
        except Exception as ex:
            st, detail = 'error', '%r %s' % (ex, traceback.format_exc(limit=6))
        if st == 'reproduced':
            if (prop, k) in known: known_hit.append((k, known[(prop, k)]))
            else: new_viol.append((k, v, detail))
        elif st == 'lemma-only':
            # a unit-level contract the property's mechanism relies on fails, but no input of the public API shows the property violated:
            # recorded, neither a violation nor an inconclusive run
            ctx.notes.append('unit contract breached without an observable violation of the property: %s' % str(detail)[:600])
        else:
            not_repro.append((k, v, st, detail))
    # ---- optional second engine of the same family: z3 judging real outputs (other back-ends, larger instances)
    extra_cov = {}
    if spec.get('extra'):
        try:
            conf, extra_cov, inc = spec['extra'](ctx)
        except Exception as ex:
            conf, extra_cov, inc = [], {}, ['extra engine crashed: %r %s' % (ex, traceback.format_exc(limit=8))]
        inconclusive.extend(inc)
        have = {k for k, _, _ in new_viol} | {k for k, _ in known_hit}
        for k, v, detail in conf:
            if k in have: continue           # already found (and replayed) by the symbolic part
            have.add(k)
            if (prop, k) in known: known_hit.append((k, known[(prop, k)]))
            else: new_viol.append((k, v, detail))
    if not_repro:
        k, v, st, detail = not_repro[0]
        inconclusive.append('%d counterexamples did not reproduce natively (model/engine defect, not reported as violation); first: %s %s %s'
                            % (len(not_repro), k, st, str(detail)[:600]))
    for k, f in known_hit:
        print('KNOWN-FINDING: property=%s %s' % (prop, f.get('what', k)))
    replay_paths = []
    os.makedirs(os.path.join(OUT, 'replays'), exist_ok=True)
    for k, v, detail in new_viol:
        h = hashlib.sha1(k.encode()).hexdigest()[:10]
        path = os.path.join(OUT, 'replays', '%s-%s.json' % (prop, h))
        json.dump({'property': prop, 'key': k, 'violation': v, 'native': detail,
                   'rerun': 'python3-vt /verif/check.py %s --replay %s' % (prop, path)}, open(path, 'w'), indent=1, default=str)
        replay_paths.append(path)
        print('VIOLATION property=%s replay=%s' % (prop, path))
        print('   what: %s | %s' % (v.get('kind'), str(v.get('what'))[:300]))
    # ---- evidence
    wall = time.time() - t0
    samples = []
    for r in results:
        if r.job.canary: continue
        for s_ in r.samples[:1]:
            samples.append({'job': r.job.name, 'path': s_})
        if len(samples) >= 8: break
    eng0 = next(iter(ctx.engines.values())) if ctx.engines else None
    def human(nm):
        import re
        m = re.search(r'<impl at ([^>]*?)>::(\w+)', nm)
        if m and eng0 is not None:
            try:
                h = eng0.impl_header(m.group(1))
                if h: return ('<%s as %s>::%s' % (h[1], h[0], m.group(2))) if h[0] else '%s::%s' % (h[1], m.group(2))
            except Exception: pass
        return nm
    fn_names = sorted(set(human(n) for n in agg['fn_hits'] if '{closure' not in n and 'promoted' not in n))
    cov = {
        'states': max(paths, 0), 'transitions': int(agg['forks'] + paths),
        'traces_validated_against_impl': int(nval),
        'samples': samples or [{'note': 'no completed path'}],
        'exhaustive': False,
        'jobs': {r.job.name: dict(r.status) for r in results},
        'paths_by_outcome': dict(status),
        'forks_decided_by_solver': int(agg['forks']),
        'solver_queries': int(agg['solver_calls']), 'solver_seconds_cpu': round(agg['solver_time'], 2),
        'mir_statements_executed': int(agg['steps']),
        'functions_encoded': fn_names, 'functions_encoded_count': len(agg['fn_hits']),
        'library_models_invoked': dict(agg['model_hits']),
        'bounds': spec.get('bounds', ''), 'outside_the_bound': spec.get('outside', ''),
        'canary': 'violated as required' if canary_ok and canary_seen else 'FAILED',
        'encoding_source': 'rustc -Zunpretty=mir of %s working tree, regenerated this run (%.1fs); native replay build %.1fs' % (build.REPO, ctx.mir_s, ctx.native_s),
        'engine_validation_s': round(val_s, 1), 'exploration_s': round(agg['wall_s'], 1),
        'counterexamples_found': len(by_key), 'counterexamples_reproduced_natively': len(new_viol) + len(known_hit),
        'known_findings_hit': [k for k, _ in known_hit],
        'inconclusive': inconclusive,
        'notes': ctx.notes,
    }
    cov.update(spec.get('extra_coverage', {}))
    cov.update(extra_cov)
    ev = {'property_id': prop, 'tier': tier, 'seed': seed, 'level': spec.get('level', 'model_checking'), 'coverage': cov,
          'assumptions': spec.get('assumptions', []), 'wall_s': round(wall, 1), 'violations': len(new_viol)}
    os.makedirs(os.path.join(OUT, 'evidence'), exist_ok=True)
    json.dump(ev, open(os.path.join(OUT, 'evidence', prop + '.json'), 'w'), indent=1, default=str)
    print('%s tier=%s seed=%d: %d paths (%s), %d forks, %d solver queries (%.1fs), %d validated traces, %d counterexamples (%d new, %d known) in %.1fs'
          % (prop, tier, seed, paths, dict(status), agg['forks'], agg['solver_calls'], agg['solver_time'], nval, len(by_key), len(new_viol), len(known_hit), wall))
    if new_viol: return 1
    if inconclusive:
        for m in inconclusive: print('INCONCLUSIVE: ' + m)
        return 2
    return 0


if __name__ == '__main__':
    try:
        main()
    except SystemExit:
        raise
    except BaseException as ex:       # build failure, engine crash, ...: inconclusive, never a verdict
        traceback.print_exc()
        print('INCONCLUSIVE: the check could not be carried out: %r' % (ex,))
        sys.exit(2)
