#!/bin/bash
# usage: tools/seedbatch.sh "<seed> <props...>" ...   - confirm each seed in a scratch worktree, then run the given checks against it
for spec in "$@"; do set -- $spec; s=$1; shift
  echo "######## $s"
  tools/seedconfirm.sh /tmp/seeds/$s 2>&1 | grep -E "^---|exit=|test result: (FAILED|ok. (4|57))|FAILED|PATCH"
  LINES_SHOWN=3 tools/seedtest.sh /tmp/seeds/$s/patch.diff "$@" 2>&1
done
