#!/usr/bin/env python3
"""regenerates /verif/MANIFEST.json from the table below (claimed checks + not_applicable)"""
import json, os
HERE = os.path.dirname(os.path.dirname(os.path.abspath(__file__)))
props = [json.loads(l) for l in open(os.path.join(HERE, 'properties.jsonl'))]
TECH = 'bounded symbolic execution of rustc MIR (mirse) with z3 deciding every branch and assertion; counterexamples replayed natively'
CLAIMED = {
 'C01': ('5/C01', 'grounded() executed symbolically on ADF families whose truth tables are solver variables; z3 decides per path that the result equals the least fixpoint written as a formula over the tables. Bounded: all 2-statement ADFs, 3/4-statement families with 1-2 symbolic statements.',
         'mirse: native back-end, std containers/iterators under models. The biodivine-based Adf (adfbiodivine.rs) and the naive Adf obtained through hybrid_step() / hybrid_step_opt(false) are executed symbolically too, with the external crate biodivine_lib_bdd replaced by a contract model (Boolean functions as truth tables of solver terms; mirse/models_bio.py, compared with the real library on concrete instances every run). In addition the real binary (real biodivine) answers seeded texts (up to 300 statements) and z3 decides the least fixpoint on the formulas of each text; that part validates instances, it is not exhaustive'),
 'C02': ('5/C02', 'complete() executed symbolically; for all 3^n candidate interpretations z3 decides membership <=> fixpoint-of-consequence-operator, plus duplicate-freeness and grounded-first. Same bounded ADF families as C01.',
         'mirse: native back-end under std models; adfbiodivine::Adf::complete and complete() after hybrid_step() symbolically on the biodivine contract model (mirse/models_bio.py); plus z3-judged answers of the real binary (real biodivine) on seeded texts with 2-6 statements (per-instance validation)'),
 'C03': ('5/C03', 'stable() and stable_with_prefilter() executed symbolically; for all 2^n candidates z3 decides membership <=> (model and reduct-grounded re-derives the true statements). Same families as C01.',
         'mirse: native plain and pre-filter variants under std models; adfbiodivine::Adf::stable / stable_bdd_representation and stable / stable_with_prefilter / stable_bdd_representation(&bio) after hybrid_step(), stable after hybrid_step_opt(false) symbolically on the biodivine contract model (mirse/models_bio.py); the parser-based rewriting (--stmrew) and all of the above again via z3-judged answers of the real binary on seeded texts (per-instance validation)'),
 'C04': ('5/C04', 'both counting-guided procedures executed symbolically incl. heuristics comparators, path cubes and counting tables; result set compared with the stable-model definition by z3 for every ADF of the bounded families.',
         'mirse: native back-end under std models and the same procedures after hybrid_step() on the biodivine contract model; a unit job decides the documented contract of Bdd::interpretations for all diagrams over 3 (thorough: 4) variables - a breach is reported only through an ADF, found by a native search over the completions, on which heuristics a/b answer wrongly; hybrid back-ends also via z3-judged answers of the real binary on seeded texts (per-instance validation)'),
 'C05': ('5/C05', 'nogood search executed symbolically for Simple, both counting heuristics, Rand (every draw a fresh solver variable) and a Custom model heuristic (every admissible choice explored); delivered multiset compared with the definition, sender drop checked in the channel model, fuel exhaustion = non-termination candidate confirmed natively.',
         'roaring bitmaps as 32-bit vectors, crossbeam channel as FIFO model, StdRng over-approximated; bounded families (Rand/Custom: all 2-statement ADFs + seeded 3-statement ADFs)'),
 'C08': ('5/C08, 10.2', 'library half only: the crate\'s grammar composition (alternative order, tags, map closures building Formula values, dictionary updates of parse_statement/parse_ac) is executed from its MIR on inputs of concrete length whose bytes are solver variables over a 24-symbol alphabet; a reference recogniser for the documented grammar runs on the same symbolic bytes; per path both must agree on accept/reject, consumed length, tree shape, verbatim label slices (keyword look-alikes), argument order, statement list / dictionary / formula list; no panic path.',
         'nom combinators are models (validated differentially each run); all strings up to length 7-8 plus connective-prefixed families; OUTSIDE: longer inputs, nom internals, the CLI and web halves (exit status, parse_only = Error)'),
 'C09': ('3.3, 5/C09', 'translation validation: every compiled program (text x native / biodivine bridge / pre-grounded bridge x sort mode) is decided exactly by z3 - for each statement, diagram (ITE term over the dumped node table) == acceptance formula over all assignments; pre-grounded import against the formula with z3-computed grounded values substituted. Repo instances + ~100 (quick) / 1000 (thorough) seeded texts with up to 60 statements.',
         'reference reader/printer of the text format; validation of individual compilations, not a proof of the compiler', 'translation_validation',
         'z3 equivalence checking of the real binary\'s compiled diagrams against the parsed formulas (translation validation), disagreements replayed natively'),
 'C10': ('5/C10, 10.2', 'every presentation (shuffled facts, layout, sort mode, injective renaming) of seeded ADFs is run through the real binary on several back-ends; the definitional answer is decided once per ADF by z3 on the formulas and each presentation must return exactly it as label->value maps; lexicographic mode must report byte-wise label order.',
         'reference printer of the text format; instances drawn from the seed', 'translation_validation',
         'z3-decided definitional answers compared with the real binary on every presentation of each drawn ADF'),
 'C11': ('5/C11', 'seeded call histories on one Adf object executed symbolically on all 256 two-statement ADFs and 3-statement families; final answer compared with a fresh object, acceptance handles with the submitted tables (z3), and every entry of the private memo tables (ite/restrict caches, supports, count cache, unique table) audited semantically by z3; one job explores every hash iteration order.',
         'std models; Rand excluded from the fresh-object comparison'),
 'C19': ('5/C19', 'producer, relay and last store executed symbolically with the channel model; each poll sees a symbolic non-decreasing prefix of the sent messages (solver variable) and requests an unconstrained symbolic handle; after every poll z3/structural checks: receiver table = producer prefix of consumed length, found <=> present afterwards; after the final drain all tables identical.',
         'crossbeam channel = FIFO model; threads replaced by the prefix-visibility argument; chain length 2'),
 'C12': ('5/C12', 'the C13/C06/C07 harnesses and the semantics at n=2 are executed against MIR dumped under each cargo feature set and compared with the oracle (hence with each other and the default build); quick: default + 3 seed-drawn sets, thorough: all 12.',
         'std models; native replay binary is rebuilt per feature set for validation and replay'),
 'C13': ('5/C13', 'every diagram query executed symbolically on diagrams from symbolic truth tables; z3 decides path counts, model-count ratio and 2^depth normalisation, depth, support, both impact measures, disjointness and exact cover of the path cubes; ModelCounts kernels at full 64-bit width.',
         'std models; default feature set; constant diagrams excluded for path cubes'),
 'C14': ('5/C14', 'both round trips executed symbolically after seeded call histories (and the --export guard of the CLI, see note): (a) Bdd::from(nodes) + Adf::from((ordering, bdd, ac)); (b) JSON import modelled from the serde derive attributes read off the source each run (validated against real serde_json natively) followed by the real fix_import. Checked: node list and roots index by index, every answer vs a fresh object, semantic audit of the imported private tables (supports, counts, unique table) by z3, the C06 invariants, and continued construction on the imported store.',
         'serde_json encoder/decoder internals are under a contract model; stores are native-shaped (variable nodes first) and bridged-shaped (only the diagrams\' nodes, as Adf::from_biodivine_vector leaves them); the CLI half (--export never overwrites) is decided on App::run of the binary crate with a stub file system whose exists() is a solver variable (a create of a path not known to be absent is the violation; replayed with the real binary on a real existing file) - the operating system itself is outside'),
 'C16': ('5/C16, 10.2, 10.7', 'the MIR of the server binary merged with the library MIR is executed symbolically - (i) SimplifiedAdf::from(Adf) then Adf::from(SimplifiedAdf) reproduces nodes, roots and names and the rebuilt object answers all six strategies like a fresh one; (ii) DoubleLabeledGraph::from_adf_and_ac on the ADF and on every model of every strategy: node set = reachable set, edges = node table, labels, and z3 decides that following the picture from each root evaluates the submitted acceptance condition under every assignment agreeing with the shown model; (iii) the synchronous closures that add_adf_problem and solve_adf_problem hand to spawn_blocking, on submitted TEXTS whose acceptance conditions are symbolic (every condition in full DNF with minterms guarded by c(v)/c(f), the distinguishing byte a solver variable): parse, compile by either parsing strategy, stored form, parse-only picture, then for each of the six strategies the real dispatch on the stored form - stored answers = definitional answers for the submitted text, every picture faithful, the set of running tasks restored after each closure; malformed texts (concrete and short symbolic ones judged by the reference reader) are never answered with Ok; AdfProblemInfo::from_adf_prob_and_tasks reports exactly the running entries of that user and problem.',
         'OUTSIDE the claim: HTTP/actix, MongoDB (the stored form is handed from the first closure to the second directly), tokio timeout/spawn and the async continuations that write results to the database, has_been_solved, authentication (C17). std/Arc/RwLock/Mutex/String models, web::Data as a cell, nom under models (as C08), Hybrid parsing on the biodivine contract model; native replay compiles the kernels and the two closure bodies from the server source text. Bounded: all 256 two-statement ADFs, seeded three-statement families'),
 'C18': ('5/C18', 'all of nogoods.rs executed symbolically: sequences of symbolic nogoods (bit-vector pairs) under every duplicate-elimination mode, a symbolic partial interpretation; z3 decides against the 2^V total assignments that the store excludes exactly what was added, conclusions are forced, conflicts are neither spurious nor missed; conclusion_closure (crate-private) likewise.',
         'roaring bitmap as 32-bit vector; V<=3-4, K<=2-3 (thorough: K=4 at V=3 under Subsume with the first nogood fixed up to symmetry); the empty nogood; stores with fewer arity buckets than variables'),
 'C20': ('5/C20', 'both iterators executed symbolically on vectors of unconstrained 64-bit handles (one path per decided/undecided pattern, all values at once): item count 2^k / 3^k, pairwise distinct, decided positions untouched, first item = input (three-valued), None forever afterwards.',
         'std models; vector length <= 6 (quick) / 8 (thorough)'),
 'C15': ('5/C15, 10.6', 'App::run (bin/src/main.rs) executed from its MIR on an App value whose ten semantics flags are solver variables: every feasible flag combination is one path in each of the three library modes; the text written to stdout (real print! of the real PrintableInterpretation) is compared per path with what the definitions prescribe for the input file (grounded first, complete models as a set, then one copy of the stable models per stable-model flag, two-valued models for --twoval); well-formed input must not panic, malformed input must panic and print nothing; --lx/--an and --heu with fewer symbolic flags. A flag the code never reads on the flag-free path is reported through the single-flag invocation of the real binary.',
         'clap argument parsing is NOT executed: the harness constructs the parsed App; the real binary (real clap) is invoked once per mode with every single flag, --heu value and sorting flag, and judged like a replayed counterexample. core::fmt / std::fs / env_logger are stubs (mirse/models_cli.py), biodivine_lib_bdd is its contract model. Bounded: 2-6 concrete input files with 2-3 statements (the semantics on all small ADFs are C01-C05, the syntax C08/C09); OUTSIDE: --import/--export/--counter, verbosity, exit codes beyond panic / no panic. 4 known findings (flags silently ignored with --lib biodivine) are listed in known_findings.json; the same defect in the naive mode was repaired'),
 'C06': ('5/C06', 'scripts of diagram operations executed symbolically on one store; after every step z3 decides the structural invariants (reduced, ordered, duplicate-free, unique table <-> node table) and handle-equality <=> function-equality for all issued handles.',
         'std HashMap/HashSet/Vec under models; all functions of 2 variables, seeded 3/4-variable families, histories of length 2-3 incl. node-list re-import. Bridged stores: hybrid_step() / hybrid_step_opt(false) executed on symbolic biodivine diagrams (contract model) for all two-statement ADFs and seeded three-statement families - invariants, same handle <=> same function, roots denote the submitted conditions; plus per-instance validation with the real biodivine library'),
 'C07': ('5/C07', 'same symbolic runs as C06; per step z3 decides for every assignment that the result table equals the connective / cofactor of the operand tables and that the node-table prefix is unchanged.',
         'as C06'),
}
NA = {
 'C17': 'async actix handlers against MongoDB with argon2 and signed cookies under concurrent requests: no function a bounded symbolic execution can run; see DESIGN.md section 7',
}
PENDING = 'check under construction in this session (will be claimed when its harness is committed)'
checks = []
for p in props:
    pid = p['id']
    if pid in CLAIMED:
        ref, text, note = CLAIMED[pid][:3]
        level = CLAIMED[pid][3] if len(CLAIMED[pid]) > 3 else 'model_checking'
        checks.append({
            'property_id': pid,
            'quick_cmd': 'python3-vt check.py %s --tier quick' % pid,
            'thorough_cmd': 'python3-vt check.py %s --tier thorough' % pid,
            'evidence_file': 'evidence/%s.json' % pid,
            'replay_cmd_template': 'python3-vt check.py %s --replay {path}' % pid,
            'engine': 'mirse',
            'level_claimed': {'category': level, 'text': text, 'design_ref': 'DESIGN.md section ' + ref},
            'level_note': note,
            'technique': CLAIMED[pid][4] if len(CLAIMED[pid]) > 4 else TECH,
        })
na = [{'property_id': p['id'], 'reason': NA.get(p['id'], PENDING)} for p in props if p['id'] not in CLAIMED]
m = {
 'version': 1,
 'setup_cmd': 'python3-vt tools/setup.py',
 'hooks': {'guard': 'adf_obdd_verif', 'enable': 'none needed: the checks read rustc MIR of the unmodified sources (private items are visible there) and use the public API natively',
           'baseline_off_cmd': 'cd /repo && cargo test --workspace --no-fail-fast --offline', 'source_commits': [], 'add_only': True},
 'engines': [
  {'name': 'mirse', 'path': 'mirse/', 'serves_properties': sorted(CLAIMED), 'kind_free_text': 'bounded symbolic executor over rustc -Zunpretty=mir text (regenerated from /repo per run), z3 4.8.12 python API decides branch feasibility and assertions; forking by re-execution under decision prefixes on 16 processes'},
  {'name': 'native replay', 'path': 'replay/', 'serves_properties': sorted(CLAIMED), 'kind_free_text': 'Rust binary with a path dependency on /repo/lib: engine validation (concrete differential runs) and replay of every counterexample before it is reported'},
 ],
 'checks': checks,
 'notes': 'exit 0 = held on everything explored; 1 = VIOLATION (replayed natively); 2 = inconclusive (engine validation failed, unsupported MIR construct, bound exceeded, counterexample not reproducible) - never reported as success. Genuine defects found and repaired are listed in known_findings.json (fixed:).',
 'not_applicable': na,
}
json.dump(m, open(os.path.join(HERE, 'MANIFEST.json'), 'w'), indent=1)
print('claimed', len(checks), 'not_applicable', len(na))
