#!/bin/bash
# usage: tools/seedconfirm2.sh <seed dir> [worktree]  - confirm a seeded change in a scratch worktree (outside /repo and /verif); handles the three kinds of
# demonstration: demo.sh (drives the built CLI), demo.rs appended to a server source file (header names file + test), demo.rs as lib/examples/demo.rs
# (header may name a cargo feature set: "cargo run --offline --example demo <flags>")
set -u
d=$1; wt=${2:-/tmp/wt/confirm}
[ -d $wt ] || git -C /repo worktree add --detach $wt HEAD -q
cd $wt && git checkout -q --detach $(git -C /repo rev-parse HEAD) && git checkout -- . && git clean -fdq -e target
run_demo() {
  if [ -f $d/demo.sh ]; then timeout 900 bash $d/demo.sh $wt
  elif grep -q "server/src/" <(head -12 $d/demo.rs); then
    f=$(head -12 $d/demo.rs | grep -o "server/src/[a-z_]*\.rs" | head -1); t=$(head -14 $d/demo.rs | grep -o "cargo test -p adf-bdd-server --offline [a-z0-9_]*" | head -1 | awk '{print $NF}')
    cp $f /tmp/_orig_server_file; cat $d/demo.rs >> $f
    timeout 1500 cargo test -p adf-bdd-server --offline $t 2>&1 | tail -5; rc=${PIPESTATUS[0]}
    cp /tmp/_orig_server_file $f; return $rc
  else
    flags=$(head -12 $d/demo.rs | grep -o "cargo run --offline --example demo.*" | head -1 | sed 's/cargo run --offline --example demo//')
    mkdir -p lib/examples && cp $d/demo.rs lib/examples/demo.rs
    (cd lib && timeout 900 cargo run --offline --example demo $flags 2>&1 | tail -3; exit ${PIPESTATUS[0]}); rc=$?
    rm -rf lib/examples; return $rc
  fi
}
echo "--- demo on the unchanged tree"; run_demo >/tmp/demo_clean.out 2>&1; echo "exit=$?"; tail -2 /tmp/demo_clean.out
git apply $d/patch.diff || { echo "PATCH DOES NOT APPLY"; exit 3; }
echo "--- test suite with the change"
timeout 1500 cargo test --workspace --no-fail-fast --offline 2>&1 | grep -E "^test result|FAILED|failed" | head -8
echo "--- demo with the change"; run_demo >/tmp/demo_mut.out 2>&1; echo "exit=$?"; tail -2 /tmp/demo_mut.out
git checkout -- . ; git clean -fdq -e target
