#!/bin/bash
# usage: tools/runall.sh [quick|thorough] [props...]  - runs the registered checks in /verif against /repo, one after the other, and prints one line each
tier=${1:-quick}; shift
props=${@:-C01 C02 C03 C04 C05 C06 C07 C08 C09 C10 C11 C12 C13 C14 C15 C16 C18 C19 C20}
cd "$(dirname "$(readlink -f "$0")")/.."
for p in $props; do
  s=$(date +%s)
  out=$(python3-vt check.py $p --tier $tier 2>&1); rc=$?
  echo "$p rc=$rc wall=$(( $(date +%s) - s ))s | $(echo "$out" | grep -E "tier=" | cut -c1-220)"
  echo "$out" | grep -E "^INCONCLUSIVE|^VIOLATION" | cut -c1-300 | head -3
done
