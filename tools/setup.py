#!/usr/bin/env python3
"""setup after a fresh restore (offline): pre-build dependency caches so that checks only rebuild what depends on /repo"""
import sys, os
sys.path.insert(0, os.path.dirname(os.path.dirname(os.path.abspath(__file__))))
from vlib import build
mir, dt = build.dump_mir()
print('MIR dump ok (%d lines, %.1fs)' % (mir[0].count('\n'), dt))
path, dt = build.build_native()
print('native replay ok %s (%.1fs)' % (path, dt))
