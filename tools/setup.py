#!/usr/bin/env python3
"""setup after a fresh restore (offline): pre-build dependency caches so that checks only rebuild what depends on /repo"""
import sys, os
sys.path.insert(0, os.path.dirname(os.path.dirname(os.path.abspath(__file__))))
from vlib import build
mir, dt = build.dump_mir()
print('MIR dump ok (%d lines, %.1fs)' % (mir[0].count('\n'), dt))
path, dt = build.build_native()
print('native replay ok %s (%.1fs)' % (path, dt))
path, dt = build.build_native(release=True)
print('native replay (release) ok %s (%.1fs)' % (path, dt))
import subprocess, time
t = time.time()
p = subprocess.run(['cargo', 'build', '--offline', '-p', 'adf-bdd-bin'], cwd=build.REPO, env=dict(build.ENV, CARGO_TARGET_DIR=os.path.join(build.CACHE, 'target-cli'), RUSTFLAGS='-Awarnings'),
                   capture_output=True, text=True)
print('CLI binary %s (%.1fs)' % ('ok' if p.returncode == 0 else 'FAILED (C15 / C14 will report it): ' + p.stderr[-300:], time.time() - t))
