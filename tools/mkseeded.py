#!/usr/bin/env python3
"""copies confirmed seeded changes from the sub-agents' drop directory into /verif/seeded/<id>/ with meta.json"""
import json, os, shutil, sys
SRC = '/tmp/seeds'; DST = os.path.join(os.path.dirname(os.path.dirname(os.path.abspath(__file__))), 'seeded')
CONFIRM = ('confirmed by me in a scratch worktree (tools/seedconfirm.sh): patch applies to the repaired tree; cargo test --workspace --no-fail-fast --offline passes with the change '
           '(4 + 57 tests); the demonstration (lib/examples/demo.rs, cargo run --example demo) exits 0 on the unchanged tree and non-zero with the change. '
           'Checks were run against the change with tools/seedtest.sh (scratch worktree via VERIF_REPO, never /repo).')
# id: (property, what it needs to manifest, caught_by [(check, how)], missed_by [(check, why)])
TABLE = json.load(open(os.path.join(os.path.dirname(os.path.abspath(__file__)), 'seeded_table.json')))
os.makedirs(DST, exist_ok=True)
for sid, ent in TABLE.items():
    src = os.path.join(SRC, sid)
    dst = os.path.join(DST, sid.replace('/', '-'))
    if os.path.isdir(src):
        os.makedirs(dst, exist_ok=True)
        for f in ('patch.diff', 'demo.rs', 'notes.md'):
            if os.path.exists(os.path.join(src, f)): shutil.copyfile(os.path.join(src, f), os.path.join(dst, f))
    elif not os.path.isdir(dst):
        print('missing', sid); continue
    meta = {'id': sid.replace('/', '-'), 'property': ent['property'], 'origin': ent.get('origin', 'fresh sub-agent given only the property text and its own scratch worktree'),
            'breaks': ent['breaks'], 'needs_to_manifest': ent['needs'], 'what_i_ran': CONFIRM,
            'caught_by': ent.get('caught_by', []), 'missed_by': ent.get('missed_by', []), 'strengthening': ent.get('strengthening', '')}
    json.dump(meta, open(os.path.join(dst, 'meta.json'), 'w'), indent=1)
print('seeded:', len(os.listdir(DST)))
