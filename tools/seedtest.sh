#!/bin/bash
# usage: tools/seedtest.sh <patch.diff> <prop> [<prop> ...]   - apply a seeded change to /repo, run the quick checks, undo it
set -u
patch=$1; shift
cd /repo && git status --short | grep -q . && { echo "/repo not clean"; exit 3; }
git -C /repo apply "$patch" || { echo "patch does not apply"; exit 3; }
cd /verif
for p in "$@"; do
  out=$(timeout 1500 python3-vt check.py $p --tier ${TIER:-quick} 2>&1); rc=$?
  echo "== $p rc=$rc"
  echo "$out" | grep -E "^VIOLATION|^   what|^INCONCLUSIVE|^KNOWN|tier=" | head -${LINES_SHOWN:-6}
done
git -C /repo checkout -- . ; git -C /repo status --short
