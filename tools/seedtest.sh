#!/bin/bash
# usage: tools/seedtest.sh <patch.diff> <prop> [<prop> ...]
# tries a seeded change: applies it in a scratch worktree of /repo (outside /repo and /verif), runs the quick checks against that
# checkout (VERIF_REPO) with evidence/replays redirected (VERIF_OUT_DIR), then resets the worktree.  /repo itself is never touched.
set -u
patch=$1; shift
wt=${WT:-/tmp/wt/seedrepo}
[ -d $wt ] || git -C /repo worktree add --detach $wt HEAD -q
cd $wt && git checkout -q --detach $(git -C /repo rev-parse HEAD) && git checkout -- . && git clean -fdq
git apply "$patch" || { echo "patch does not apply"; exit 3; }
cd /verif
for p in "$@"; do
  out=$(VERIF_REPO=$wt VERIF_OUT_DIR=${OUT:-/tmp/seedout} timeout ${TIMEOUT:-1800} python3-vt check.py $p --tier ${TIER:-quick} 2>&1); rc=$?
  echo "== $p rc=$rc"
  echo "$out" | grep -E "^VIOLATION|^   what|^INCONCLUSIVE|^KNOWN|tier=" | cut -c1-500 | head -${LINES_SHOWN:-6}
done
cd $wt && git checkout -- . && git clean -fdq
