#!/bin/bash
# usage: tools/seedconfirm_sh.sh <seed dir with patch.diff + demo.sh>  - like seedconfirm.sh for demonstrations that drive the CLI binary (bash demo.sh <checkout>)
set -u
d=$1; wt=/tmp/wt/confirm
[ -d $wt ] || git -C /repo worktree add --detach $wt HEAD -q
cd $wt && git checkout -q --detach $(git -C /repo rev-parse HEAD) && git checkout -- . && git clean -fdq -e target
echo "--- demo on the unchanged tree"
(timeout 900 bash $d/demo.sh $wt >/tmp/demo_clean.out 2>&1; echo "exit=$?"; tail -2 /tmp/demo_clean.out)
git apply $d/patch.diff || { echo "PATCH DOES NOT APPLY"; exit 3; }
echo "--- test suite with the change"
timeout 1500 cargo test --workspace --no-fail-fast --offline 2>&1 | grep -E "^test result|FAILED|failed" | head -8
echo "--- demo with the change"
(timeout 900 bash $d/demo.sh $wt >/tmp/demo_mut.out 2>&1; echo "exit=$?"; tail -2 /tmp/demo_mut.out)
git checkout -- . ; git clean -fdq -e target
