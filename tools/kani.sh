#!/bin/bash
# E2: Kani/CBMC proofs of the loop-free integer kernels (full 64-bit width).  usage: tools/kani.sh   (exit 0 = all harnesses verified)
set -u
cd /verif/kani && cp /repo/Cargo.lock . 
CARGO_NET_OFFLINE=true timeout 1500 cargo kani --target-dir /verif/.cache/target-kani 2>&1 | tee /verif/.cache/kani.log | grep -E "^Checking harness|VERIFICATION:|SUCCESSFUL|FAILED|Complete -|cover.*(SATISFIED|UNSATISFIABLE|UNREACHABLE)|error" | head -60
grep -q "0 failures" /verif/.cache/kani.log && ! grep -q "VERIFICATION:- FAILED" /verif/.cache/kani.log
