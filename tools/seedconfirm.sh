#!/bin/bash
# usage: tools/seedconfirm.sh <seed dir with patch.diff + demo.rs>   - confirm a seeded change in a scratch worktree (outside /repo and /verif)
set -u
d=$1; wt=/tmp/wt/confirm
[ -d $wt ] || git -C /repo worktree add --detach $wt HEAD -q
cd $wt && git checkout -q --detach $(git -C /repo rev-parse HEAD) && git checkout -- . && rm -rf lib/examples
mkdir -p lib/examples && cp $d/demo.rs lib/examples/demo.rs
echo "--- demo on the unchanged tree"
(cd lib && timeout 600 cargo run --offline --example demo >/tmp/demo_clean.out 2>&1; echo "exit=$?"; tail -3 /tmp/demo_clean.out)
git apply $d/patch.diff || { echo "PATCH DOES NOT APPLY"; exit 3; }
echo "--- test suite with the change"
timeout 1200 cargo test --workspace --no-fail-fast --offline 2>&1 | grep -E "^test result|FAILED|failed" | head -8
echo "--- demo with the change"
(cd lib && timeout 600 cargo run --offline --example demo >/tmp/demo_mut.out 2>&1; echo "exit=$?"; tail -3 /tmp/demo_mut.out)
git checkout -- . ; rm -rf lib/examples
